"""vlib.py — the machinery behind ./check (see DESIGN.md section 3).

A property is decided by (1) re-checking its theorem file with coqc and reading
Print Assumptions, (2) one or more correspondence parts that run the real code and the
extracted model on the same generated histories and evaluate the extracted trace
predicates on the implementation's traces.
"""
import hashlib
import json
import os
import re
import subprocess
import time

ROOT = "/verif"
BUILD = ROOT + "/build"
COQ = ROOT + "/coq"
REPO = "/repo"

ENV = dict(os.environ)
ENV.update(CARGO_TARGET_DIR=BUILD + "/target", CARGO_NET_OFFLINE="true", RUST_BACKTRACE="0")
ENV.pop("RUSTFLAGS", None)

COQ_TRUSTED = [
    "Coq 8.16.1 kernel (coqc); vm_compute only inside non-vacuity examples and finite reflective lemmas; no native_compute",
    "Print Assumptions of every property theorem must report 'Closed under the global context' (no axioms)",
    "extraction with ExtrOcamlBasic only (bool, option, list, prod, unit, sumbool mapped; N/positive/nat stay inductive), OCaml 4.13.1, ocaml/driver.ml",
    "correspondence: Rust harness crates under /verif/harness, case generator tools/gen_cases.py, snapshot canonicalisation, re-stamping of entry birth times for virtual time",
    "modelled, not verified: HashMap/VecDeque/DashMap as association list / list, RefCell, parking_lot, fastrand (arbitrary choice), Instant/SystemTime (monotone clock), machine integers (unbounded in the model)",
]

FORBIDDEN = re.compile(
    r"\b(Admitted|admit|Axiom|Axioms|Parameter|Parameters|Conjecture|Conjectures)\b"
    r"|Admit Obligations|Unset Guard Checking|Unset Positivity Checking|Unset Universe Checking"
    r"|bypass_check|type-in-type|impredicative-set")

# ---------------------------------------------------------------------------------------
# property table
# ---------------------------------------------------------------------------------------
# part kinds: "core" = vh-core + extracted SeqModel/Spec through ocaml/driver
Q, T = 700, 30000
PROPS = {
    "C01": dict(theorems=["Props/C01.v", "Props/C01w.v"], parts=[
        dict(kind="core", profile="C01", mask="out,keys,vals", preds="c01", quick=Q, thorough=T),
        dict(kind="macro", profile="C01", preds="pure", mask="ret,keys,vals", quick=300, thorough=8000)]),
    "C02": dict(theorems=["parts/keys/coq|CLK|Props_C02.v"], parts=[
        dict(kind="ext", name="keys", quick=1500, thorough=30000),
        dict(kind="macro", profile="C02", preds="pure", mask="ret,keys", quick=300, thorough=8000)]),
    "C03": dict(theorems=["Props/C03.v", "Props/C18.v"], parts=[
        dict(kind="macro", profile="C03", preds="once,pure", mask="ret,keys", quick=400, thorough=10000),
        dict(kind="sched", mode="sharing", quick=120, thorough=3000)]),
    "C04": dict(theorems=["Props/C04.v", "Props/C05.v"], parts=[
        dict(kind="core", profile="C04", mask="keys,qset", preds="c04,c05,wf", quick=Q, thorough=T),
        dict(kind="core", profile="C04X", mask="nkeys", preds="c04", quick=300, thorough=6000),
        dict(kind="macro", profile="C04", preds="limit", mask="nkeys,qset", quick=300, thorough=8000),
        dict(kind="macro", profile="C04R", preds="limit", mask="nkeys,qset", quick=200, thorough=6000)]),
    "C05": dict(theorems=["Props/C05.v", "parts/memest/coq|CLM|Props_C05_memest.v"], parts=[
        dict(kind="core", profile="C05", mask="keys,queue,size", preds="c05,c07,c08,wf", quick=Q, thorough=T),
        dict(kind="ext", name="memest", quick=1500, thorough=30000, env={"MEMEST_TARGET": BUILD + "/target"}),
        dict(kind="macro", profile="C05", preds="mem", mask="keys,qset", quick=300, thorough=8000)]),
    "C06": dict(theorems=["Props/C06.v"], parts=[
        dict(kind="core", profile="C06", mask="out,keys,qset,born,stats", preds="c06", quick=Q, thorough=T),
        dict(kind="macro", profile="C06", preds="ttl,limit,c20", mask="ret,keys,born", quick=300, thorough=8000)]),
    "C07": dict(theorems=["Props/C07.v"], parts=[
        dict(kind="core", profile="C07", mask="keys,queue", preds="c07,wf", quick=Q, thorough=T),
        dict(kind="macro", profile="C07", preds="order,limit", mask="keys,queue", quick=300, thorough=8000),
        dict(kind="sched", mode="order", quick=40, thorough=400)]),
    "C08": dict(theorems=["Props/C08.v"], parts=[
        dict(kind="core", profile="C08", mask="keys,queue,freq", preds="c08,wf", quick=Q, thorough=T),
        dict(kind="macro", profile="C08", preds="score,limit", mask="keys,queue,freq", quick=300, thorough=8000)]),
    "C09": dict(theorems=["Props/C09.v"], parts=[
        dict(kind="macro", profile="C09", preds="err,limit,mem", mask="ret,keys,vals", quick=400, thorough=10000)]),
    "C10": dict(theorems=["Props/C10.v"], parts=[
        dict(kind="macro", profile="C10", preds="cif,limit,mem,c20", mask="ret,keys,vals", quick=400, thorough=10000)]),
    "C11": dict(theorems=["Props/C11.v"], parts=[
        dict(kind="macro", profile="C11", preds="inv,limit,mem,ttl", mask="ret,keys,vals,born", quick=400, thorough=10000)]),
    "C12": dict(theorems=["Props/C12.v"], parts=[
        dict(kind="macro", profile="C12", preds="tags,frame", mask="counts,keys,qset", quick=400, thorough=10000),
        dict(kind="sched", mode="inval", quick=40, thorough=400)]),
    "C13": dict(theorems=["Props/C13.v"], parts=[
        dict(kind="macro", profile="C13", preds="frame", mask="counts,keys,queue", quick=400, thorough=10000)]),
    "C14": dict(theorems=["Props/C14.v"], parts=[
        dict(kind="macro", profile="C14", preds="iso,pure,order,limit,score", mask="ret,keys", quick=400, thorough=10000),
        dict(kind="sched", mode="sharing14", quick=120, thorough=3000)]),
    "C17": dict(theorems=["parts/locks/coq|CLL|Props_C17.v"], parts=[
        dict(kind="locks"),
        dict(kind="macro", profile="C17", preds="", mask="none", quick=300, thorough=8000, blocked_is_failure=True),
        dict(kind="sched", mode="deadlock", quick=500, thorough=0)]),
    "C18": dict(theorems=["Props/C18.v"], parts=[
        dict(kind="sched", mode="consistency", quick=700, thorough=0)]),
    "C20": dict(theorems=["Props/C20.v", "parts/locks/coq|CLL|Props_C20.v"], parts=[
        dict(kind="macro", profile="C20", preds="c20", mask="ret,keys,vals,born", quick=500, thorough=12000, panic_is_failure=True)]),
    "C19": dict(theorems=["parts/attrs/coq|CLA|Props_C19.v", "Props/C01w.v"], parts=[
        dict(kind="ext", name="attrs", quick=2000, thorough=30000),
        dict(kind="macro", profile="C19", preds="pure,limit,ttl,order,score,err,cif,inv,stats,tags,frame", quick=400, thorough=10000, panic_is_failure=True)]),
    "C16": dict(theorems=["Props/C16.v"], parts=[
        dict(kind="core", profile="C16", mask="", preds="", quick=1200, thorough=60000, panic_is_failure=True),
        dict(kind="macro", profile="C16", preds="", mask="none", quick=400, thorough=10000, panic_is_failure=True, blocked_is_failure=True)]),
    "C15": dict(theorems=["Props/C15.v"], parts=[
        dict(kind="core", profile="C15", mask="out,stats", preds="c15", quick=Q, thorough=T),
        dict(kind="macro", profile="C15", preds="stats", mask="ret,stats", quick=300, thorough=8000),
        dict(kind="sched", mode="stats", quick=60, thorough=600)]),
}


NOT_YET = {}
HOOK_COMMITS = ["a4c436d", "2885aa3"]


def sh(cmd, timeout=3000, cwd=None, env=None):
    p = subprocess.run(cmd, shell=isinstance(cmd, str), cwd=cwd, env=env or ENV, timeout=timeout,
                       stdout=subprocess.PIPE, stderr=subprocess.STDOUT, text=True)
    return p.returncode, p.stdout


class Run:
    def __init__(self, pid, tier, seed):
        self.pid, self.tier, self.seed = pid, tier, seed
        self.t0 = time.time()
        self.violations = []      # dicts: kind, what, replay (path), found_input (bool), sig
        self.cov = dict(evaluations=0, distinct_nontrivial=0, traces_validated_against_impl=0,
                        obligations=0, discharged=0, samples=[], histograms={}, parts=[])
        self.assumptions = []
        self.nontrivial_hashes = set()
        self.replay_n = 0
        self.ext_nontrivial = 0
        self.rules = []

    def replay_path(self, tag):
        os.makedirs(BUILD + "/replay", exist_ok=True)
        self.replay_n += 1
        return "%s/replay/%s-%s-%d-%s.txt" % (BUILD, self.pid, self.seed, self.replay_n, tag)

    def add_violation(self, kind, what, replay_text, found_input, sig):
        path = self.replay_path(kind)
        with open(path, "w") as f:
            f.write("# property=%s kind=%s\n# %s\n" % (self.pid, kind, what.replace("\n", " ")))
            f.write(replay_text if replay_text.endswith("\n") else replay_text + "\n")
        self.violations.append(dict(kind=kind, what=what, replay=path, found_input=found_input, sig=sig))


# ---------------------------------------------------------------------------------------
# Coq side
# ---------------------------------------------------------------------------------------
def strip_coq_comments(s):
    out, depth, i = [], 0, 0
    while i < len(s):
        if s.startswith("(*", i):
            depth += 1
            i += 2
        elif s.startswith("*)", i) and depth > 0:
            depth -= 1
            i += 2
        else:
            if depth == 0:
                out.append(s[i])
            i += 1
    return "".join(out)


def scan_forbidden():
    bad = []
    for top in [COQ, ROOT + "/parts"]:
        for dirpath, _, files in os.walk(top):
            for fn in files:
                if fn.endswith(".v"):
                    p = os.path.join(dirpath, fn)
                    txt = strip_coq_comments(open(p).read())
                    for m in FORBIDDEN.finditer(txt):
                        bad.append("%s: %s" % (os.path.relpath(p, ROOT), m.group(0)))
    return bad


def build_model(run):
    rc, out = sh(ROOT + "/tools/build_model.sh && " + ROOT + "/parts/setup_parts.sh", timeout=3000)
    if rc != 0:
        run.add_violation("theorem", "the Coq development or the extracted driver no longer builds: " + out[-400:],
                          "coq-build-log:\n" + out[-3000:], False, "coq-build")
        return False
    return True


def check_theorems(run, vfiles):
    """re-check the property's theorem files from scratch and read Print Assumptions"""
    bad = scan_forbidden()
    cmds = []
    for vspec in vfiles:
        if "|" in vspec:
            cdir, root, vfile = vspec.split("|")
            cdir = os.path.join(ROOT, cdir)
        else:
            cdir, root, vfile = COQ, "CL", vspec
        path = os.path.join(cdir, vfile)
        if not os.path.exists(path):
            run.add_violation("theorem", "theorem file %s is missing" % vfile, vfile, False, "theorem-missing")
            continue
        src = strip_coq_comments(open(path).read())
        names = re.findall(r"\bPrint Assumptions\s+([A-Za-z0-9_']+)\s*\.", src)
        thms = re.findall(r"\b(?:Theorem|Corollary)\s+([A-Za-z0-9_']+)", src)
        run.cov["obligations"] += len(thms)
        run.cov.setdefault("theorems", []).extend(thms)
        missing = [t for t in thms if t not in names]
        cmd = "cd %s && timeout 600 coqc -Q . %s %s" % (cdir, root, vfile)
        cmds.append(cmd)
        rc, out = sh(cmd, timeout=700)
        closed, axioms = 0, []
        chunks = re.split(r"(?m)^(Closed under the global context|Axioms:)", out)
        i = 1
        while i < len(chunks):
            if chunks[i].startswith("Closed"):
                closed += 1
            else:
                axioms.append(chunks[i + 1].strip()[:300])
            i += 2
        if rc == 0:
            run.cov["discharged"] += min(closed, len(thms))
        problems = []
        if rc != 0:
            problems.append("coqc failed on %s: %s" % (vfile, out[-600:]))
        if missing:
            problems.append("theorems without Print Assumptions: %s" % missing)
        if axioms:
            problems.append("axioms reported by Print Assumptions: %s" % axioms)
        if closed != len(names):
            problems.append("%d of %d Print Assumptions answers are closed" % (closed, len(names)))
        if bad:
            problems.append("forbidden vernacular in the development: %s" % bad[:5])
        if problems:
            run.add_violation("theorem", "; ".join(problems), "theorem-file: %s\n%s" % (vfile, "\n".join(problems)),
                              False, "theorem:" + vfile)
    run.cov["checker_cmd"] = " ; ".join(cmds) + "   (after `make` of the whole development; Print Assumptions parsed)"
    if run.tier == "thorough":
        # independent re-check of the compiled theorem files and everything they depend on
        for vspec in vfiles:
            if "|" in vspec:
                cdir, root, vfile = vspec.split("|")
                cdir = os.path.join(ROOT, cdir)
            else:
                cdir, root, vfile = COQ, "CL", vspec
            mod = root + "." + vfile[:-2].replace("/", ".")
            rc, out = sh("cd %s && timeout 1500 coqchk -silent -o -Q . %s %s 2>&1 | tail -15" % (cdir, root, mod), timeout=1600)
            ok = re.search(r"\* Axioms:\s*<none>", out) is not None and re.search(r"type-in-type:\s*<none>", out) is not None \
                and re.search(r"unsafe \(co\)fixpoints:\s*<none>", out) is not None and re.search(r"positivity is assumed:\s*<none>", out) is not None
            run.cov.setdefault("coqchk", []).append(dict(module=mod, ok=bool(ok), tail=out[-300:]))
            if not ok:
                run.add_violation("theorem", "coqchk does not confirm %s axiom-free: %s" % (mod, out[-300:]), out[-2000:], False, "coqchk:" + mod)


# ---------------------------------------------------------------------------------------
# E1: core engines
# ---------------------------------------------------------------------------------------
def build_harness(run, crate):
    d = "%s/harness/%s" % (ROOT, crate)
    sh("cp %s/Cargo.lock %s/Cargo.lock" % (REPO, d))
    rc, out = sh("cd %s && timeout 1500 cargo build --offline 2>&1" % d, timeout=1600)
    if rc != 0:
        errs = "\n".join(l for l in out.splitlines() if not l.startswith("WARNING conda"))
        run.add_violation("build", "harness %s no longer builds against /repo (the code the model describes has changed shape): %s"
                          % (crate, errs[-500:]), "cargo-build-log:\n" + errs[-4000:], False, "build:" + crate)
        return False
    return True


def split_cases(text):
    cases, cur = [], []
    for line in text.splitlines():
        if line.startswith("CASE") or line.startswith("RTCASE") or line.startswith("PCASE") or line.startswith("STRESS"):
            cur = [line]
        elif line.startswith("END"):
            cur.append(line)
            cases.append(cur)
            cur = []
        elif cur:
            cur.append(line)
    return cases


def run_core_cases(cases_text, mask, preds, tag):
    """runs vh-core and the driver; returns (verdicts {id: str}, fails {id: [(pred, idx)]}, traits {id: nontrivial}, stats)"""
    cf = "%s/cases_%s.txt" % (BUILD, tag)
    of = "%s/obs_%s.txt" % (BUILD, tag)
    with open(cf, "w") as f:
        f.write(cases_text)
    rc, out = sh("%s/target/debug/vh-core %s %s" % (BUILD, cf, of), timeout=3000)
    if rc != 0:
        return None, "vh-core failed: " + out[-500:]
    cmd = "%s/extract/driver %s --mask %s --props %s" % (BUILD, of, mask or "none", preds or "none")
    rc, out = sh(cmd, timeout=3000)
    if rc != 0:
        return None, "driver failed: " + out[-500:]
    verdicts, fails, stats = {}, {}, {}
    for line in out.splitlines():
        t = line.split(" ", 2)
        if t[0] == "V":
            verdicts[t[1]] = t[2]
        elif t[0] == "F":
            p, idx = t[2].split()
            fails.setdefault(t[1], []).append((p, int(idx)))
        elif t[0] == "STAT":
            stats[t[1]] = int(t[2])
    return (verdicts, fails, stats), None


def case_failing(case_lines, mask, preds, want, tag):
    """does this single case still show the failure `want` = ('F', pred) | ('V', 'MISMATCH'|'PANIC')?"""
    r, err = run_core_cases("\n".join(case_lines) + "\n", mask, preds, tag)
    if r is None:
        return False
    verdicts, fails, _ = r
    cid = case_lines[0].split()[1]
    if want[0] == "F":
        return any(p == want[1] for p, _ in fails.get(cid, []))
    return verdicts.get(cid, "").startswith(want[1])


def shrink_case(case_lines, mask, preds, want, tag):
    head, ops, end = case_lines[0], case_lines[1:-1], case_lines[-1]
    if head.startswith("RTCASE"):
        return case_lines        # real-time cases take seconds to run and are already minimal
    changed = True
    rounds = 0
    while changed and rounds < 6:
        changed = False
        rounds += 1
        i = len(ops) - 1
        while i >= 0:
            trial = ops[:i] + ops[i + 1:]
            # keep virtual time: add the removed op's dt to the next op
            dt = int(ops[i].split()[1])
            if dt and i < len(ops) - 1:
                nxt = trial[i].split()
                nxt[1] = str(int(nxt[1]) + dt)
                trial[i] = " ".join(nxt)
            if trial and case_failing([head] + trial + [end], mask, preds, want, tag):
                ops = trial
                changed = True
            i -= 1
    return [head] + ops + [end]


def part_core(run, part):
    if not build_harness(run, "vh-core"):
        return
    n = part["quick"] if run.tier == "quick" else part["thorough"]
    gen = "%s/gen_%s.txt" % (BUILD, run.pid)
    rc, out = sh("python3 %s/tools/gen_cases.py --prop %s --seed %d --count %d --out %s"
                 % (ROOT, part["profile"], run.seed, n, gen))
    if rc != 0:
        raise RuntimeError("generator failed: " + out)
    geninfo = json.loads(out)
    corpus = open(ROOT + "/corpus/core.txt").read() if os.path.exists(ROOT + "/corpus/core.txt") else ""
    text = corpus + open(gen).read()
    mask, preds = part["mask"], part["preds"]
    r, err = run_core_cases(text, mask, preds, run.pid)
    if r is None:
        run.add_violation("mismatch", "correspondence run failed: " + err, err, False, "harness-run")
        return
    verdicts, fails, stats = r
    cases = {c[0].split()[1]: c for c in split_cases(text)}
    run.cov["evaluations"] += len(verdicts)
    run.cov["traces_validated_against_impl"] += sum(1 for v in verdicts.values() if v == "ok")
    run.cov["histograms"]["core_configs"] = geninfo["configs"]
    run.cov["histograms"]["core_ops"] = geninfo["ops"]
    run.cov["histograms"]["core_events"] = stats
    run.cov["samples"] += geninfo["samples"][:2]
    run.rules.append("core: committed corpus of minimised failures + histories generated from VERIF_SEED by tools/gen_cases.py "
                     "(one splitmix64 stream; configurations sampled per property profile); non-trivial = the implementation's trace "
                     "contains an eviction or an expiry; distinct = distinct (configuration, operation list) texts")
    run.cov["parts"].append(dict(kind="core", profile=part["profile"], mask=mask, preds=preds, cases=len(verdicts),
                                 corpus_cases=len(split_cases(corpus))))
    # distinct non-trivial: distinct (config, ops) texts among cases in which an eviction or an expiry happened
    obs_nontrivial = nontrivial_ids("%s/obs_%s.txt" % (BUILD, run.pid))
    for cid in obs_nontrivial:
        if cid in cases:
            body = " ".join(cases[cid][0].split()[2:9]) + "|" + "|".join(cases[cid][1:-1])
            run.nontrivial_hashes.add(hashlib.sha1(body.encode()).hexdigest())
    # --- violations ---
    own = set(p for p in preds.split(",") if p)
    reported = 0
    # 1. a trace predicate of this property fails on the implementation's trace: concrete failing input
    for cid, fl in sorted(fails.items()):
        for p, idx in fl:
            if p in own and reported < 3:
                small = shrink_case(cases[cid], mask, preds, ("F", p), run.pid + "_shrink")
                what = "trace predicate %s fails on the implementation at operation %d of case %s" % (p, idx, cid)
                run.add_violation("prop", what, "\n".join(small), True, "%s %s %s" % (p, " ".join(small[0].split()[2:5]), "prop"))
                reported += 1
    # 2. panics
    if part.get("panic_is_failure"):
        for cid, v in sorted(verdicts.items()):
            if v.startswith("PANIC") and reported < 3:
                small = shrink_case(cases[cid], mask, preds, ("V", "PANIC"), run.pid + "_shrink")
                run.add_violation("panic", "operation panicked: %s (case %s)" % (v, cid), "\n".join(small), True,
                                  "panic %s" % " ".join(small[0].split()[2:5]))
                reported += 1
    # 3. the model and the implementation disagree, and no predicate failure was found: correspondence broken
    bad = [(cid, v) for cid, v in sorted(verdicts.items()) if v.startswith("MISMATCH") or v.startswith("PANIC")]
    if bad and reported == 0:
        cid, v = bad[0]
        small = shrink_case(cases[cid], mask, preds, ("V", v.split()[0]), run.pid + "_shrink")
        what = ("correspondence E1/%s broken: model SeqModel.step and the implementation disagree (%d of %d cases; first: %s %s); "
                "no trace predicate of %s failed on any explored trace" % (part["profile"], len(bad), len(verdicts), cid, v[:200], run.pid))
        run.add_violation("mismatch", what, "\n".join(small) + "\n# " + v, False, "mismatch %s" % " ".join(small[0].split()[2:5]))
    skipped = sum(1 for v in verdicts.values() if v.startswith("SKIP"))
    run.cov["histograms"]["timing_discards"] = skipped



# ---------------------------------------------------------------------------------------
# E2: macro-generated functions (vh-macro + extracted Wrapper/Registry model through ocaml/e2_driver)
# ---------------------------------------------------------------------------------------
def ensure_corpus():
    os.makedirs(BUILD + "/corpus", exist_ok=True)
    rc, out = sh("python3 %s/tools/gen_corpus.py %s/corpus" % (ROOT, BUILD))
    if rc != 0:
        raise RuntimeError("corpus generator failed: " + out)


FULL_MASK = "ret,keys,queue,vals,freq,born,stats,counts"


def run_macro_cases(cases_text, preds, tag, mask=FULL_MASK):
    cf = "%s/mcases_%s.txt" % (BUILD, tag)
    of = "%s/mobs_%s.txt" % (BUILD, tag)
    with open(cf, "w") as f:
        f.write(cases_text)
    rc, out = sh("%s/target/debug/vh-macro run %s %s" % (BUILD, cf, of), timeout=3000)
    if rc != 0:
        return None, "vh-macro failed: " + out[-500:]
    rc, out = sh("%s/extract/e2_driver %s/corpus/corpus_table.txt %s --preds %s --mask %s"
                 % (BUILD, BUILD, of, preds or "none", mask or "none"), timeout=3000)
    if rc != 0:
        return None, "e2_driver failed: " + out[-500:]
    verdicts, fails, stats = {}, {}, {}
    for line in out.splitlines():
        t = line.split(" ", 2)
        if t[0] == "V":
            verdicts[t[1]] = t[2]
        elif t[0] == "F":
            q = t[2].split(" ", 2)
            fails.setdefault(t[1], []).append((q[0], int(q[1]), q[2] if len(q) > 2 else ""))
        elif t[0] == "STAT":
            stats[t[1]] = int(t[2])
    return (verdicts, fails, stats), None


def macro_case_failing(case_lines, preds, want, tag, mask=FULL_MASK):
    r, err = run_macro_cases("\n".join(case_lines) + "\n", preds, tag, mask)
    if r is None:
        return False
    verdicts, fails, _ = r
    cid = case_lines[0].split()[1]
    if want[0] == "F":
        return any(p == want[1] for p, _, _ in fails.get(cid, []))
    return verdicts.get(cid, "").startswith(want[1])


def shrink_macro_case(case_lines, preds, want, tag, mask=FULL_MASK):
    head, evs, end = case_lines[0], case_lines[1:-1], case_lines[-1]
    changed, rounds = True, 0
    while changed and rounds < 5:
        changed = False
        rounds += 1
        i = len(evs) - 1
        while i >= 0:
            trial = evs[:i] + evs[i + 1:]
            dt = int(evs[i].split()[1])
            if dt and i < len(evs) - 1:
                nxt = trial[i].split()
                nxt[1] = str(int(nxt[1]) + dt)
                trial[i] = " ".join(nxt)
            if trial and macro_case_failing([head] + trial + [end], preds, want, tag, mask):
                evs = trial
                changed = True
            i -= 1
    return [head] + evs + [end]


def part_macro(run, part):
    ensure_corpus()
    if not build_harness(run, "vh-macro"):
        return
    n = part["quick"] if run.tier == "quick" else part["thorough"]
    gen = "%s/mgen_%s.txt" % (BUILD, run.pid)
    rc, out = sh("python3 %s/tools/gen_mcases.py --table %s/corpus/corpus_table.txt --prop %s --seed %d --count %d --out %s"
                 % (ROOT, BUILD, part["profile"], run.seed, n, gen))
    if rc != 0:
        raise RuntimeError("generator failed: " + out)
    geninfo = json.loads(out)
    # minimised failing histories of earlier findings and seeded changes run first; they are kept per profile
    # because the scripted values of one profile are not a pure function's values for another
    cpath = ROOT + "/corpus/macro/%s.txt" % part["profile"]
    corpus = open(cpath).read() if os.path.exists(cpath) else ""
    text = corpus + open(gen).read()
    preds = part["preds"]
    mask = part.get("mask", FULL_MASK)
    r, err = run_macro_cases(text, preds, run.pid, mask)
    if r is None:
        run.add_violation("mismatch", "correspondence run failed: " + err, err, False, "harness-run")
        return
    verdicts, fails, stats = r
    cases = {c[0].split()[1]: c for c in split_cases(text)}
    run.cov["evaluations"] += len(verdicts)
    run.cov["traces_validated_against_impl"] += sum(1 for v in verdicts.values() if v == "ok")
    run.cov["histograms"]["macro_functions"] = geninfo["functions"]
    run.cov["histograms"]["macro_events"] = geninfo["events"]
    run.cov["histograms"]["macro_observed"] = stats
    run.cov["samples"] += geninfo["samples"][:1]
    run.rules.append("macro: event histories over the generated corpus of macro-expanded functions (tools/gen_mcases.py, VERIF_SEED), "
                     "one fresh process per case; non-trivial = some key is called at least twice (a hit or a recomputation is exercised); "
                     "distinct = distinct event lists")
    run.cov["parts"].append(dict(kind="macro", profile=part["profile"], preds=preds, mask=mask, cases=len(verdicts),
                                 corpus_functions=sum(1 for _ in open(BUILD + "/corpus/corpus_table.txt"))))
    # distinct non-trivial: distinct event lists among cases in which some call was served from the cache
    # and some entry was removed (eviction, expiry or invalidation) — measured by the driver per run, per case here
    for cid, c in cases.items():
        body = "|".join(c[1:-1])
        if " call " in body and verdicts.get(cid) is not None:
            calls = [e.split() for e in c[1:-1] if e.split()[2] == "call"]
            keys = set((e[3], e[4]) for e in calls)
            if len(calls) > len(keys):      # some key is called twice: a hit or a recomputation is exercised
                run.nontrivial_hashes.add(hashlib.sha1(body.encode()).hexdigest())
    own = set(p for p in preds.split(",") if p)
    reported = 0
    for cid, fl in sorted(fails.items()):
        for p, idx, detail in fl:
            if p in own and reported < 3:
                small = shrink_macro_case(cases[cid], preds, ("F", p), run.pid + "_shrink", mask)
                what = "oracle %s fails on the implementation at event %d of case %s: %s" % (p, idx, cid, detail)
                fns = sorted(set(e.split()[3] for e in small[1:-1] if e.split()[2] == "call"))
                run.add_violation("prop", what, "\n".join(small) + "\n# functions: " + ",".join("f" + x for x in fns),
                                  True, "%s %s" % (p, detail[:80]))
                reported += 1
    if part.get("panic_is_failure") or part.get("blocked_is_failure"):
        for cid, v in sorted(verdicts.items()):
            if v.startswith("BLOCKED") and reported < 3:
                # a sequential history in which an operation never returns: the case is the failing input
                small = shrink_macro_case(cases[cid], preds, ("V", "BLOCKED"), run.pid + "_shrink", mask)
                run.add_violation("prop", "an operation of case %s never returned (the harness gave it 4 s and stopped the process)" % cid,
                                  "\n".join(small), True, "blocked " + cid)
                reported += 1
    if part.get("panic_is_failure"):
        for cid, v in sorted(verdicts.items()):
            if (v.startswith("PANIC") or v.startswith("CRASH")) and reported < 3:
                small = shrink_macro_case(cases[cid], preds, ("V", v.split()[0]), run.pid + "_shrink", mask)
                run.add_violation("panic", "call panicked: %s (case %s)" % (v, cid), "\n".join(small), True, "panic " + v[:80])
                reported += 1
    bad = [(cid, v) for cid, v in sorted(verdicts.items())
           if v.startswith("MISMATCH") or v.startswith("PANIC") or v.startswith("CRASH") or v.startswith("BLOCKED")]
    if bad and reported == 0:
        cid, v = bad[0]
        small = shrink_macro_case(cases[cid], preds, ("V", v.split()[0]), run.pid + "_shrink", mask)
        what = ("correspondence E2/%s broken: model Wrapper.call/world and the macro-generated code disagree (%d of %d cases; first: %s %s); "
                "no oracle of %s failed on any explored trace" % (part["profile"], len(bad), len(verdicts), cid, v[:240], run.pid))
        run.add_violation("mismatch", what, "\n".join(small) + "\n# " + v, False, "mismatch " + v[:60])
    run.cov["histograms"]["macro_timing_discards"] = sum(1 for v in verdicts.values() if v.startswith("SKIP"))


# ---------------------------------------------------------------------------------------
# self-contained parts (parts/<name>/run.sh <seed> <count> <workdir> prints V / F / E / STAT lines)
# ---------------------------------------------------------------------------------------
def part_ext(run, part):
    name = part["name"]
    n = part["quick"] if run.tier == "quick" else part["thorough"]
    work = "%s/%s_work" % (BUILD, name)
    env = dict(ENV)
    env.update(part.get("env", {}))
    rc, out = sh("%s/parts/%s/run.sh %d %d %s" % (ROOT, name, run.seed, n, work), timeout=3000, env=env)
    oks, bad, fails, errs, stats, sample = 0, [], [], [], {}, []
    for line in out.splitlines():
        t = line.split(" ", 2)
        if t[0] == "V" and len(t) >= 3:
            if t[2].startswith("ok"):
                oks += 1
                if len(sample) < 2:
                    sample.append(line)
            else:
                bad.append(line)
        elif t[0] == "F":
            fails.append(line)
        elif t[0] == "E":
            errs.append(line)
        elif t[0] == "STAT":
            stats[" ".join(t[1:2])] = " ".join(t[2:]) if len(t) > 2 else ""
    run.cov["evaluations"] += oks + len(bad)
    run.cov["traces_validated_against_impl"] += oks
    run.cov["histograms"][name] = stats
    run.cov["samples"] += [dict(part=name, line=l[:300]) for l in sample]
    run.rules.append("%s: parts/%s/run.sh with VERIF_SEED; every agreeing case of the part's own generator is counted (distinctness not measured: random typed inputs, collisions improbable)" % (name, name))
    run.cov["parts"].append(dict(kind="ext", name=name, cases=oks + len(bad), cmd="parts/%s/run.sh %d %d" % (name, run.seed, n)))
    run.ext_nontrivial += oks
    replay_hdr = "part=%s seed=%d count=%d\nrerun: %s/parts/%s/run.sh %d %d %s\n" % (name, run.seed, n, ROOT, name, run.seed, n, work)
    if fails:
        run.add_violation("prop", "part %s: %d property failures on the implementation; first: %s" % (name, len(fails), fails[0][:300]),
                          replay_hdr + "\n".join(fails[:5]), True, "%s %s" % (name, fails[0][:60]))
    elif bad:
        run.add_violation("mismatch", "correspondence %s broken: model and implementation disagree on %d of %d cases; first: %s"
                          % (name, len(bad), oks + len(bad), bad[0][:300]), replay_hdr + "\n".join(bad[:5]), False, "%s mismatch" % name)
    elif rc != 0 or errs:
        run.add_violation("mismatch", "part %s did not run to completion (rc=%d): %s" % (name, rc, (errs or [out[-300:]])[0][:300]),
                          replay_hdr + out[-2000:], False, "%s run" % name)



# ---------------------------------------------------------------------------------------
# E6: lock traces and two-thread schedules on the macro-generated functions (hook H1)
# ---------------------------------------------------------------------------------------
def corpus_table():
    t = {}
    for line in open(BUILD + "/corpus/corpus_table.txt"):
        w = line.split()
        if w and w[0] == "FN":
            t[int(w[1])] = dict(name=w[2], fl=w[3], pol=w[4], limit=None if w[5] == "-" else int(w[5]),
                                mem=None if w[7] == "-" else int(w[7]), is_result=w[10] == "1", ret=int(w[13]) // 100)
    return t


def part_locks(run, part):
    """C17: every recorded lock trace respects the lock order and ends holding nothing (trace_ordered, the hypothesis
    of the trace-level theorem); whether it also has the shape written down in LockProgs.v is counted, not required"""
    ensure_corpus()
    if not build_harness(run, "vh-macro"):
        return
    tf = BUILD + "/traces.txt"
    rc, out = sh("%s/target/debug/vh-macro traces > %s" % (BUILD, tf), timeout=600)
    if rc != 0:
        run.add_violation("mismatch", "vh-macro traces failed: " + out[-300:], out[-2000:], False, "traces-run")
        return
    drv = ROOT + "/parts/locks/ocaml/locks_driver"
    rc, out = sh("cd %s/parts/locks/ocaml && ocamlfind ocamlopt -O2 -w -a locks_model.mli locks_model.ml locks_driver.ml -o locks_driver 2>&1 && ./locks_driver < %s" % (ROOT, tf), timeout=600)
    oks, bad, fails, stats = 0, [], [], {}
    for line in out.splitlines():
        t = line.split(" ", 2)
        if t[0] == "V":
            if t[2].startswith("ok"):
                oks += 1
            else:
                bad.append(line)
        elif t[0] == "F":
            fails.append(line)
        elif t[0] == "STAT":
            stats[t[1]] = t[2]
    run.cov["evaluations"] += oks + len(bad)
    run.cov["traces_validated_against_impl"] += oks
    run.ext_nontrivial += oks
    run.cov["histograms"]["lock_traces"] = stats
    run.cov["samples"] += [dict(lock_trace=l.strip()[:300]) for l in open(tf).readlines()[3:5]]
    run.rules.append("locks: one recorded lock trace per operation kind per global/async corpus function; every trace that satisfies "
                     "trace_ordered (extracted from LockProgs.v) counts; traces outside the modelled programs are counted in the histogram")
    run.cov["parts"].append(dict(kind="locks", traces=oks + len(bad)))
    run.lock_problems = fails + bad
    if rc != 0 and not (fails or bad):
        run.add_violation("mismatch", "lock trace driver failed: " + out[-300:], out[-2000:], False, "locks-driver")


def check_sched_case(lines, table):
    """returns (deadlock, problems) for one schedule's output"""
    head = lines[0].split()
    f = int(head[2][1:])
    info = table[f]
    problems, deadlock = [], False
    a_op, b_op, c_op, rb_line, b_blocked = [], [], [], None, None
    ds_probes = []
    expect = lambda fi, x: 2 * ((fi * 37 + x * 11) % 500 + 1)
    for l in lines[1:]:
        t = l.split()
        if not t:
            continue
        if t[0] == "SCHED":
            b_blocked = "b_blocked=1" in l
            deadlock = "deadlock=1" in l
            if deadlock:
                problems.append("DEADLOCK " + l[6:])
            elif "timeout=1" in l:
                problems.append("NORETURN f%d: a call did not return within 15 s although no thread waits for an observed lock" % f)
        elif t[0] == "X" and t[1] == "hung":
            problems.append("NORETURN f%d: calls never returned (%s)" % (f, " ".join(t[2:]) or "process killed by the watchdog"))
        elif t[0] == "X" and t[1] == "crashed":
            problems.append("PANIC f%d: the process running the schedule ended abnormally (%s)" % (f, " ".join(t[2:])))
        elif t[0] == "BAD":
            problems.append(l[4:])
        elif t[0] == "STATS":
            # statistics are exact under concurrency: hits + misses = lookups performed
            if t[2] != "none" and int(t[2]) + int(t[3]) != int(t[4]):
                problems.append("STATS f%s: hits %s + misses %s != %s lookups performed by concurrent callers" % (t[1], t[2], t[3], t[4]))
        elif t[0] == "BOP":
            b_op = t[1:]
        elif t[0] in ("RA", "RB") and head[1].startswith("p-"):
            # overlapping lookups of a key that is stored and not removed: both must be served
            if "exec=1" in l:
                problems.append("MISS f%d: a lookup that overlapped another lookup of the same stored key ran the body again (%s)" % (f, l))
        elif t[0] in ("RA", "RB", "Q", "P"):
            if t[0] == "RB":
                rb_line = l
            if t[0] == "Q" and head[1].startswith("ds-"):
                # two keys at most were ever stored in a cache with limit >= 2, nothing expires or is invalidated:
                # the LAST two probes (one per key) must be served
                ds_probes.append(l)
            m = re.search(r"call (\d+) (\d+) .*exec=\d+ enc=(\d+)", l) if t[0] in ("Q", "P") else None
            if m and table[int(m.group(1))]["ret"] == 0 and int(m.group(3)) != expect(int(m.group(1)), int(m.group(2))):
                problems.append("VALUE call f%s x=%s returned enc %s, the function's value is %d"
                                % (m.group(1), m.group(2), m.group(3), expect(int(m.group(1)), int(m.group(2)))))
            if "panic=" in l:
                problems.append("PANIC " + l)
        elif t[0] == "AOP":
            a_op = t[1:]
        elif t[0] == "BOP":
            b_op = t[1:]
        elif t[0] == "COP":
            c_op = t[1:]
        elif t[0] == "RC":
            # C started after B had returned; B's call stored the result (or found it stored): C must be served
            if "panic=" in l:
                problems.append("PANIC " + l)
            same = a_op[:3] == b_op[:3] == c_op[:3] and a_op[:1] == ["call"]
            if same and b_blocked is False and rb_line and "exec=" in rb_line and "exec=1" in l:
                problems.append("MISS f%d: the body ran again in a call that started after a call that stored the result had returned "
                                "(A parked inside its own store; %s)" % (f, l))
        elif t[0] == "WM":
            # thread A is parked between two of its critical sections (holding nothing), B has finished:
            # async: queue and store hold the same keys (C18_async_consistent_always); sync: every stored
            # key is queued or is the one key whose store A is in the middle of (C18_tracked_or_pending)
            parts = [x.strip() for x in l[3:].split("|")]
            wf = int(parts[0])
            q = [] if parts[1] == "-" else parts[1].split(",")
            keys = [] if parts[2] == "-" else [e.split(":")[0] for e in parts[2].split(";")]
            untracked = [k for k in keys if k not in q]
            pending_here = 1 if (a_op[:1] == ["call"] and len(a_op) > 1 and int(a_op[1]) == wf and table[wf]["fl"] != "a") else 0
            if len(untracked) > pending_here:
                problems.append("UNTRACKED f%d (mid-execution, A parked holding nothing): keys %s are stored but not in the order queue %s"
                                % (wf, untracked, q))
            if table[wf]["fl"] == "a":
                orphans = [k for k in q if k not in keys]
                if orphans or len(set(q)) != len(q):
                    problems.append("UNTRACKED f%d (mid-execution): async queue %s does not match the stored keys %s" % (wf, q, keys))
                lim = table[wf]["limit"]
                if lim is not None and len(keys) > lim:
                    problems.append("LIMIT f%d holds %d entries between two critical sections, limit %d" % (wf, len(keys), lim))
        elif t[0] == "W":
            parts = [x.strip() for x in l[2:].split("|")]
            wf = int(parts[0])
            q = [] if parts[1] == "-" else parts[1].split(",")
            st = [] if parts[2] == "-" else [e.split(":") for e in parts[2].split(";")]
            keys = [e[0] for e in st]
            for k in keys:
                if k not in q:
                    problems.append("UNTRACKED f%d: key %s is stored but not in the order queue %s" % (wf, k, q))
            if table[wf]["fl"] == "a" and not deadlock:
                # async: queue and store hold the same keys whenever no store is in progress (C18_async_consistent_always)
                orphans = [k for k in q if k not in keys and k != "-1"]
                if orphans:
                    problems.append("UNTRACKED f%d: at quiescence the async order queue %s lists keys that are not stored (%s)" % (wf, q, keys))
            lim = table[wf]["limit"]
            if lim is not None and len(keys) > lim:
                problems.append("LIMIT f%d holds %d entries at quiescence, limit %d" % (wf, len(keys), lim))
            if table[wf]["ret"] == 0:
                for e in st:
                    if int(e[0]) >= 0 and int(e[1]) != expect(wf, int(e[0])):
                        problems.append("VALUE f%d stores enc %s under key %s, the function's value is %d" % (wf, e[1], e[0], expect(wf, int(e[0]))))
    if head[1].startswith("e-"):
        # B ran while A was parked inside its store; if B is a whole-cache invalidation, then once everything has
        # returned no entry stored BEFORE B's call (the prefill) may be left
        b_kind = b_op[:1]
        prefill = [l.split()[3] for l in lines if l.startswith("P call")]
        # ... provided the invalidation says it reached a cache (true / a count >= 1; a cache without tag, event or
        # dependency registers no clear callback, invalidate_cache then returns false and clears nothing)
        rb = [l for l in lines if l.startswith("RB ")]
        reached = bool(rb) and (" bool 1" in rb[0] or re.search(r" count [1-9]", rb[0]) is not None)
        if b_kind and b_kind[0] in ("tag", "event", "dep", "invc") and reached:
            for l in lines:
                if l.startswith("W "):
                    parts = [x.strip() for x in l[2:].split("|")]
                    keys = [] if parts[2] == "-" else [e.split(":")[0] for e in parts[2].split(";")]
                    left = [k for k in prefill if k in keys]
                    if left:
                        problems.append("STALE f%s: the invalidation (%s) has returned but entries stored before it are still cached: keys %s"
                                        % (parts[0], " ".join(b_op), left))
    if head[1].startswith("xr-"):
        qs = [l for l in lines if l.startswith("Q ")]
        rb = [l for l in lines if l.startswith("RB ")]
        if qs and rb and "exec=1" in rb[0] and "exec=1" in qs[-1]:
            problems.append("MISS f%d: the fresh value that thread B stored for the expired key is not served afterwards (%s)" % (f, qs[-1]))
    if head[1].startswith("dk-") and not deadlock:
        ra = [l for l in lines if l.startswith("RA ")]
        rb = [l for l in lines if l.startswith("RB ")]
        if ra and rb and "panic=" not in ra[0] + rb[0]:
            for l in [l for l in lines if l.startswith("Q ")][:2]:
                if "exec=1" in l:
                    problems.append("MISS f%d: two overlapping first calls for different keys have both returned, nothing can evict, expire or "
                                    "invalidate, yet the body ran again for a key one of them stored (%s)" % (f, l))
    if head[1].startswith(("ex-", "dm-")) and not deadlock:
        qs = [l for l in lines if l.startswith("Q ")]
        ra = [l for l in lines if l.startswith("RA ")]
        rb = [l for l in lines if l.startswith("RB ")]
        # ex-: only when BOTH callers ran the body (A had not stored yet when B looked the key up, so A's store comes
        # after the re-stamping and is fresh)
        rc = [l for l in lines if l.startswith("RC ")]
        both_ran = ("exec=1" in ra[0] and "exec=1" in rb[0] and bool(rc) and "c_blocked=0" in rc[0] and b_blocked is False) if (ra and rb) else False
        if qs and ra and rb and "panic=" not in ra[0] + rb[0] and "exec=1" in qs[-1] and (both_ran or head[1].startswith("dm-")):
            if head[1].startswith("ex-"):
                problems.append("SHARE f%d: the value stored a moment ago by a caller that had been computing while the previous entry "
                                "expired is not served to the next caller (%s)" % (f, qs[-1]))
            else:
                problems.append("SHARE f%d: two overlapping first calls stored one key; their values and the resident entry fit "
                                "max_memory together, yet the resident entry, stored by another caller, is no longer served (%s)" % (f, qs[-1]))
    if head[1].startswith("lr-"):
        qs = [l for l in lines if l.startswith("Q ")]
        rb = [l for l in lines if l.startswith("RB ")]
        if len(qs) >= 2 and rb and "exec=0" in rb[0] and "exec=1" in qs[-1] and not deadlock:
            problems.append("ORDER f%d: LRU evicted the key that thread B had looked up while thread A was storing, although other "
                            "entries were used longer ago than both (%s)" % (f, qs[-1]))
    for l in ds_probes[-2:]:
        if "exec=1" in l:
            problems.append("MISS f%d: after two overlapping first calls for one key, a key that was stored is not served although the cache "
                            "never held more than two distinct keys (limit %s): %s" % (f, info["limit"], l))
    # the order queue holds every key at most once (C18_quiescent_consistent: NoDup)
    for l in lines[1:]:
        if l.startswith("W "):
            parts = [x.strip() for x in l[2:].split("|")]
            q = [] if parts[1] == "-" else [k for k in parts[1].split(",") if k != "-1"]   # -1: a key outside the named alphabet
            if len(set(q)) != len(q):
                problems.append("UNTRACKED f%s: the order queue holds a key twice at quiescence: %s" % (parts[0], q))
                break
    return deadlock, problems


def case_text(text, cid):
    """the raw input block (header line .. END) of the schedule with this id"""
    out, on = [], False
    for l in text.split("\n"):
        t = l.split()
        if t and t[0] in ("CCASE", "PCASE", "STRESS", "CASE") and len(t) > 1:
            on = t[1] == cid
        if on:
            out.append(l)
            if l.startswith("END"):
                break
    return "\n".join(out) + "\n"


def part_sched(run, part):
    ensure_corpus()
    if not build_harness(run, "vh-macro"):
        return
    n = part["quick"] if run.tier == "quick" else part["thorough"]
    sf, of = BUILD + "/sched_%s.txt" % run.pid, BUILD + "/sched_obs_%s.txt" % run.pid
    rc, out = sh("python3 %s/tools/gen_sched.py --table %s/corpus/corpus_table.txt --seed %d --count %d --out %s"
                 % (ROOT, BUILD, run.seed, n, sf))
    if rc != 0:
        raise RuntimeError("gen_sched failed: " + out)
    geninfo = json.loads(out)
    cpath = ROOT + "/corpus/sched.txt"
    corpus = open(cpath).read() if os.path.exists(cpath) else ""
    with open(sf) as fh:
        text = corpus + fh.read()
    with open(sf, "w") as fh:
        fh.write(text)
    rc, out = sh("%s/target/debug/vh-macro run %s %s" % (BUILD, sf, of), timeout=3000)
    if rc != 0:
        run.add_violation("mismatch", "vh-macro sched run failed: " + out[-300:], out[-2000:], False, "sched-run")
        return
    table = corpus_table()
    inputs = {c[0].split()[1]: c for c in split_cases(text.replace("CCASE", "CASE"))}
    inputs = {k: [l.replace("PCASE", "CASE", 1).replace("STRESS", "CASE", 1) if i == 0 else l for i, l in enumerate(v)] for k, v in inputs.items()}
    outs, cur = {}, None
    for l in open(of):
        if l.startswith("CCASE"):
            cur = l.split()[1]
            outs[cur] = [l.rstrip("\n")]
        elif cur:
            outs[cur].append(l.rstrip("\n"))
    want = part["mode"]
    n_dead = n_bad = reached = blocked = 0
    reported = 0
    unconfirmed = 0
    for cid, lines in sorted(outs.items()):
        dl, problems = check_sched_case(lines, table)
        if any(p.startswith("NORETURN") for p in problems):
            # a call that does not return is only believed when it does not return again with the
            # machine to itself (one schedule, nothing else running)
            solo_in, solo_out = BUILD + "/sched_solo_%s.txt" % run.pid, BUILD + "/sched_solo_obs_%s.txt" % run.pid
            body = case_text(text, cid)
            with open(solo_in, "w") as fh:
                fh.write(body)
            sh("%s/target/debug/vh-macro run %s %s" % (BUILD, solo_in, solo_out), timeout=600)
            lines2 = [l.rstrip("\n") for l in open(solo_out)] if os.path.exists(solo_out) else []
            again = bool(lines2) and any(p.startswith("NORETURN") for p in check_sched_case(lines2, table)[1])
            if not again:
                problems = [p for p in problems if not p.startswith("NORETURN")]
                unconfirmed += 1
        if any("reached=1" in l for l in lines):
            reached += 1
        if any("b_blocked=1" in l for l in lines):
            blocked += 1
        if want == "deadlock":
            mine = [p for p in problems if p.startswith("DEADLOCK") or p.startswith("NORETURN")]
        elif want == "sharing":
            mine = [p for p in problems if p.startswith("MISS")]
        elif want == "sharing14":
            # C14: also the sharing clauses that involve a ttl or max_memory (C03's premise excludes those)
            mine = [p for p in problems if p.startswith(("MISS", "SHARE"))]
        elif want == "inval":
            mine = [p for p in problems if p.startswith("STALE")]
        elif want == "stats":
            mine = [p for p in problems if p.startswith("STATS")]
        elif want == "order":
            mine = [p for p in problems if p.startswith("ORDER")]
        else:
            # consistency (C18): values, tracking, limits, panics, calls that never return; needless
            # re-executions (MISS) and statistics belong to C03/C14 and C15
            # (a deadlock is also a call that does not return "the function's value for its own arguments")
            mine = [p for p in problems if not p.startswith(("MISS", "STATS", "STALE", "ORDER", "SHARE"))]
        if dl:
            n_dead += 1
        if mine:
            n_bad += 1
            if reported < 2:
                body = "\n".join(inputs.get(cid, [cid])).replace("CASE", "CCASE", 1)
                run.add_violation("prop", "schedule %s on the real code: %s" % (cid, mine[0][:300]),
                                  body + "\n# " + "\n# ".join(mine[:4]), True, "sched %s" % mine[0].split()[0])
                reported += 1
    run.cov["evaluations"] += len(outs)
    run.cov["traces_validated_against_impl"] += len(outs) - n_bad
    run.ext_nontrivial += reached
    run.cov["histograms"]["schedules"] = dict(generated=geninfo["schedules"], full_enumeration=geninfo["enumeration"],
                                               pause_point_reached=reached, second_thread_blocked=blocked,
                                               deadlocks=n_dead, op_pairs=geninfo["op_pairs"],
                                               no_return_not_reproduced_alone=unconfirmed)
    run.cov["exhaustive"] = geninfo["schedules"] == geninfo["enumeration"]
    some = sorted(outs.items())[:1]
    run.cov["samples"] += [dict(schedule=l) for _, ls in some for l in ls[:12]]
    run.rules.append("sched: two-thread single-preemption schedules (operation pair x pause point, tools/gen_sched.py; seeded sample of the "
                     "enumeration in the quick tier, all of it in the thorough tier) + special families + overlapping lookups + stress runs; "
                     "non-trivial = the pause point was reached (the interleaving really happened)")
    run.cov["parts"].append(dict(kind="sched", mode=want, schedules=len(outs)))
    # C17: a lock-order problem seen in the traces without a deadlock replay found
    if want == "deadlock" and getattr(run, "lock_problems", None) and reported == 0:
        lp = run.lock_problems
        run.add_violation("mismatch", "lock traces do not match the lock programs of LockProgs.v (%d traces; first: %s); "
                          "no deadlock was found among %d schedules" % (len(lp), lp[0][:300], len(outs)),
                          "\n".join(lp[:6]), False, "locks " + lp[0][:40])


def nontrivial_ids(obs_file):
    """cases whose implementation trace contains an eviction (a stored key disappears on a store) or an expiry"""
    ids, cur, prev_keys, nt = set(), None, set(), False
    pending = None
    for line in open(obs_file):
        if line.startswith("CASE"):
            cur, prev_keys, nt = line.split()[1], set(), False
        elif line.startswith("O "):
            pending = line.split()
        elif line.startswith("S "):
            st = line.split("|")[2].strip()
            keys = set() if st == "-" else set(e.split(":")[0] for e in st.split(";"))
            if pending and pending[2] in ("ins", "insm") and (prev_keys - keys):
                nt = True
            if pending and pending[2] == "get" and pending[3] in prev_keys and pending[3] not in keys:
                nt = True
            prev_keys = keys
        elif line.startswith("END"):
            if nt:
                ids.add(cur)
    return ids


PART_RUNNERS = {"core": part_core, "macro": part_macro, "ext": part_ext, "locks": part_locks, "sched": part_sched}


# ---------------------------------------------------------------------------------------
# known findings
# ---------------------------------------------------------------------------------------
def load_known():
    findings = []
    p = ROOT + "/KNOWN_FINDINGS.txt"
    if os.path.exists(p):
        for line in open(p):
            line = line.strip()
            m = re.match(r"finding:\s+property=(\S+)\s+sig=/(.*?)/\s+(.*)", line)
            if m:
                findings.append(dict(pid=m.group(1), sig=re.compile(m.group(2)), text=m.group(3)))
    return findings


# ---------------------------------------------------------------------------------------
def run_replay(run, spec, path):
    """re-runs the case(s) of a replay file through the part it belongs to"""
    lines = [l for l in open(path) if not l.startswith("#")]
    text = "".join(lines)
    kind = None
    for l in lines:
        if l.startswith("CCASE"):
            kind = "sched"
            break
        if l.startswith("E "):
            kind = "macro"
            break
        if l.startswith("O "):
            kind = "core"
            break
        if l.startswith("part="):
            kind = "ext"
            break
    print("replay kind:", kind)
    if kind == "core":
        part = next((p for p in spec["parts"] if p["kind"] == "core"), dict(mask="out,keys,queue,vals,size,freq,born,stats", preds="c01,c04,c05,c06,c07,c08,c13,c15,wf"))
        if not build_harness(run, "vh-core"):
            return
        r, err = run_core_cases(text, part["mask"], part["preds"], run.pid + "_replay")
    elif kind == "macro":
        part = next((p for p in spec["parts"] if p["kind"] == "macro"), dict(preds="pure"))
        ensure_corpus()
        if not build_harness(run, "vh-macro"):
            return
        r, err = run_macro_cases(text, part["preds"], run.pid + "_replay")
    elif kind == "sched":
        ensure_corpus()
        if not build_harness(run, "vh-macro"):
            return
        sf, of = BUILD + "/sched_replay.txt", BUILD + "/sched_replay_obs.txt"
        # replay files name every schedule CCASE; the id prefix tells the family (and so the harness mode)
        lines_ = text.split("\n")
        for i_, l_ in enumerate(lines_):
            t_ = l_.split()
            if len(t_) > 1 and t_[0] == "CCASE":
                if t_[1].startswith(("p-", "e-")):
                    lines_[i_] = l_.replace("CCASE", "PCASE", 1)
                elif t_[1].startswith("st-"):
                    lines_[i_] = l_.replace("CCASE", "STRESS", 1)
        text = "\n".join(lines_)
        open(sf, "w").write(text)
        sh("%s/target/debug/vh-macro run %s %s" % (BUILD, sf, of), timeout=600)
        table = corpus_table()
        out = [l.rstrip("\n") for l in open(of)]
        print("\n".join(out))
        dl, problems = check_sched_case(out, table)
        if problems:
            run.add_violation("prop", "replay: " + problems[0], text, True, "replay")
        return
    else:
        print("replay files of self-contained parts name the command to re-run; see the file")
        print(text)
        return
    print("replay:", r if r else err)
    if r:
        verdicts, fails, _ = r
        for cid, v in verdicts.items():
            if v != "ok" or fails.get(cid):
                run.add_violation("prop" if fails.get(cid) else "mismatch", "replay %s: %s %s" % (cid, v, fails.get(cid)), text,
                                  bool(fails.get(cid)), "replay")


def run_check(pid, tier, seed, replay=None):
    if pid not in PROPS:
        print("unknown or unclaimed property", pid)
        return 2
    spec = PROPS[pid]
    run = Run(pid, tier, seed)
    os.makedirs(BUILD, exist_ok=True)
    os.makedirs(ROOT + "/evidence", exist_ok=True)
    if build_model(run):
        check_theorems(run, spec["theorems"])
        if replay:
            run_replay(run, spec, replay)
        else:
            for part in spec["parts"]:
                PART_RUNNERS[part["kind"]](run, part)
    known = load_known()
    real = []
    for v in run.violations:
        k = next((f for f in known if f["pid"] == pid and f["sig"].search(v["sig"])), None)
        if k:
            print("KNOWN-FINDING: property=%s %s" % (pid, k["text"]))
        else:
            real.append(v)
    # a concrete failing input outranks "no failing input found"
    real.sort(key=lambda v: not v["found_input"])
    for v in real[:1]:
        tail = "" if v["found_input"] else " no-failing-input-found"
        print("VIOLATION property=%s replay=%s%s" % (pid, v["replay"], tail))
        print("  " + v["what"][:600])
    run.cov["distinct_nontrivial"] = len(run.nontrivial_hashes) + run.ext_nontrivial
    run.cov["rule"] = " || ".join(run.rules) if run.rules else "theorem re-check only"
    run.cov["trusted_base"] = COQ_TRUSTED
    ev = dict(property_id=pid, tier=tier, seed=seed, level="proof", coverage=run.cov,
              assumptions=["agreement between model and implementation is established on the explored traces only",
                           "theorems are about the Gallina model; see DESIGN.md section 9 for what is modelled rather than verified"],
              wall_s=round(time.time() - run.t0, 2), violations=len(real))
    with open("%s/evidence/%s.json" % (ROOT, pid), "w") as f:
        json.dump(ev, f, indent=1)
    if real:
        return 1
    print("OK property=%s tier=%s seed=%d obligations=%d discharged=%d cases=%d nontrivial=%d wall=%.1fs"
          % (pid, tier, seed, run.cov["obligations"], run.cov["discharged"], run.cov["evaluations"],
             run.cov["distinct_nontrivial"], time.time() - run.t0))
    return 0
