#!/usr/bin/env python3
"""gen_mcases.py — generator of macro-level histories (E2) over the generated corpus.

usage: gen_mcases.py --table build/corpus/corpus_table.txt --prop C09 --seed N --count N --out FILE
One splitmix64 stream.  Prints a JSON summary on stdout.
Events:  E <dt> call <f> <x> <tid> <ok|err> <v> <len> <inv> <cif>
         E <dt> tag|event|dep <name>      E <dt> invc <f> | invcn <raw name>
         E <dt> invw <f> <x,x|->          E <dt> invwn <raw name>
         E <dt> invall <f:x,x;f:x|->      E <dt> sget <f> | sgetn <raw> | sreset <f>
"""
import argparse
import json
import sys

MASK = (1 << 64) - 1


class Rng:
    def __init__(self, seed):
        self.s = seed & MASK

    def next(self):
        self.s = (self.s + 0x9E3779B97F4A7C15) & MASK
        z = self.s
        z = ((z ^ (z >> 30)) * 0xBF58476D1CE4E5B9) & MASK
        z = ((z ^ (z >> 27)) * 0x94D049BB133111EB) & MASK
        return z ^ (z >> 31)

    def below(self, n):
        return self.next() % n

    def pick(self, xs):
        return xs[self.below(len(xs))]

    def chance(self, a, b):
        return self.below(b) < a


def read_table(path):
    fns = []
    for line in open(path):
        t = line.split()
        if t and t[0] == "FN":
            fns.append(dict(idx=int(t[1]), name=t[2], fl=t[3], pol=t[4], limit=None if t[5] == "-" else int(t[5]),
                            ttl=None if t[6] == "-" else int(t[6]), mem=None if t[7] == "-" else int(t[7]),
                            fw=None if t[8] == "-" else (int(t[8]), int(t[9])), is_result=t[10] == "1",
                            cache_if=t[11] == "1", inval_on=t[12] == "1", ret=int(t[13]) // 100, sig=int(t[13]) % 100,
                            tags=[] if t[14] == "-" else t[14].split(","), events=[] if t[15] == "-" else t[15].split(","),
                            deps=[] if t[16] == "-" else t[16].split(","), gates=int(t[17]) if len(t) > 17 else 0))
    return fns


def plain(f):
    return f["limit"] is None and f["ttl"] is None and f["mem"] is None and not f["cache_if"] and not f["inval_on"] \
        and not f["is_result"]


PROFILES = {
    # which functions, pure bodies?, extra event kinds, threads
    "C01": dict(lifetime=True, sel=lambda f: True, pure=True, events=["tick", "invw", "tag", "invc"], threads=2),
    "C02": dict(sel=lambda f: f["sig"] in (1, 2, 4, 5, 6, 7, 8, 9, 10, 11, 12, 13, 14), pure=True, events=[], threads=2),
    "C03": dict(pingpong=True, sel=plain, pure=True, events=[], threads=3),
    "C09": dict(lifetime=True, refresh=True, exactfit=True, sel=lambda f: f["is_result"] and not f["cache_if"], pure=False, events=["tick"], threads=1),
    "C10": dict(lifetime=True, exactfit=True, async_cases=True, async_sel=True, sel=lambda f: f["cache_if"], pure=False, events=["tick"], threads=1),
    "C11": dict(refresh=True, lifetime=True, slowbody=True, sel=lambda f: f["inval_on"], pure=False, events=["tick"], threads=1),
    "C12": dict(sel=lambda f: bool(f["tags"] or f["events"] or f["deps"]) or f["idx"] % 7 == 0, pure=True,
                events=["tag", "event", "dep", "invc", "invcn"], threads=1, heavy_inval=True),
    "C13": dict(sel=lambda f: f["fl"] != "t" or f["idx"] % 5 == 0, pure=True,
                events=["invw", "invall", "invwn", "invwb", "tag", "invc", "dep", "event"], threads=1, heavy_inval=True),
    "C14": dict(pingpong=True, echo=True, sel=lambda f: True, pure=True, events=[], threads=4),
    "C20": dict(async_cases=True, sel=lambda f: f["gates"] > 0, pure=False, events=[], threads=3, async_susp=True),
    "C04": dict(sel=lambda f: f["limit"] is not None and not f["inval_on"], pure=True, events=["invw", "invall", "tag", "invwb"], threads=2),
    # impure companions of C04: Result / invalidate_on / cache_if functions with an entry limit, scripted outcomes
    "C04R": dict(refresh=True, lifetime=True, sel=lambda f: f["limit"] is not None and (f["is_result"] or f["inval_on"] or f["cache_if"]),
                 pure=False, events=["tick", "invw", "invwb"], threads=1),
    "C05": dict(exactfit=True, sel=lambda f: f["mem"] is not None, pure=False, events=["invw"], threads=2),
    "C06": dict(async_cases=True, lifetime=True, slowbody=True, sel=lambda f: f["ttl"] is not None, pure=True, events=["tick", "invw"], threads=2),
    "C07": dict(pingpong=True, sel=lambda f: f["pol"] in ("fifo", "lru") and (f["limit"] or f["mem"]), pure=True, events=["invw", "invall", "tag", "event", "dep", "invc"], threads=3),
    "C08": dict(scores=True, pingpong=True, sel=lambda f: f["pol"] in ("lfu", "arc", "tlru") and (f["limit"] or f["mem"]), pure=True, events=["invw", "tick", "tag", "invc"], threads=3),
    "C15": dict(twins=True, sel=lambda f: f["fl"] != "t", pure=True, events=["sget", "sreset", "sgetn", "tick", "invw", "tag", "event", "invc"], threads=3),
    "C19": dict(scores=True, refresh=True, lifetime=True, exactfit=True, sel=lambda f: True, pure=True, events=["tick", "tag", "invw", "sget"], threads=2),
    # every operation returns, also in a sequential history (a self-deadlock on a lock the hooks cannot see)
    "C17": dict(refresh=True, lifetime=True, sel=lambda f: True, pure=False,
                events=["tick", "tag", "event", "dep", "invc", "invw", "invwb", "invall", "sget", "sreset"], threads=3),
    "C16": dict(sel=lambda f: True, pure=False, events=["tick", "tag", "event", "dep", "invc", "invw", "invall", "sget", "sreset"], threads=3),
}

LENS = [4, 8, 16, 40, 76]
TAGS = ["t1", "t2", "tx", "chainA", "chainB", "mass", "dup1", "dup3", "xk1"]
EVENTS = ["e1", "e2", "ex", "chainA", "massev", "dup1", "dup2", "xk1", "xk2"]
DEPS = ["d1", "d2", "dx", "chainA", "chainB", "dup2", "dup3", "xk1", "xk2"]


def gen_chain_case(r, fns):
    """caches whose names are labels of one another (or of themselves): invalidation must not cascade
    and must not skip a cache that names itself"""
    chain = [f for f in fns if f["name"].startswith("chain") or f["name"] in f["deps"] + f["events"] + f["tags"]]
    evs = []
    def calls():
        for f in chain:
            for x in range(1 + r.below(3)):
                v = (f["idx"] * 37 + x * 11) % 500 + 1
                evs.append("E 0 call %d %d 0 ok %d %d 0 1" % (f["idx"], x, v, LENS[x % 5]))
    calls()
    for _ in range(1 + r.below(3)):
        kind = r.pick(["dep", "dep", "tag", "event"])
        label = r.pick(["d1", "chainA", "chainB", "t2", "chainC", "dx", "chainS"] + [f["name"] for f in chain])
        evs.append("E 0 %s %s" % (kind, label))
        calls()
    return chain, evs


def gen_slow_refresh_case(r, fns):
    """a SLOW body between the lookup and the store of one call: the key is stored and expires; the next call finds it
    expired and is suspended in its body while REAL time passes; resumed, it stores; the following call must be served
    and the new entry must be as old as the store, not as the lookup"""
    gated = [f for f in fns if f["gates"] and f["ttl"] and not f["cache_if"]]
    if not gated:
        return None
    f = r.pick(gated)
    T = f["ttl"] * 1000
    x = r.below(3)
    ev = lambda dt, kind, v, inv=0: "E %d %s %d %d 3 ok %d 8 %d 1" % (dt, kind, f["idx"], x, v, inv)
    evs = [ev(0, "call", 1)]
    evs.append(ev(T + r.pick([0, 1000]), "callA", 2))          # finds the entry expired, purges it, suspends in the body
    evs.append("E %d rsleep %d" % (1000 + r.pick([1000, 2000]), 1100 + r.pick([0, 1000])))
    evs.append("E 0 callB")
    evs.append(ev(0, "call", 3))                               # must be served
    evs.append(ev(1000, "call", 4))
    return [f], evs


def gen_slow_body_case(r, fns, prof):
    """sync functions with a ttl whose body takes REAL time (a slow backend) longer than the ttl: the entry is born when it
    is STORED, so the call that follows at once is served.  Either the entry expired (plain refresh) or invalidate_on
    rejected it (stale refresh).  One key, one function: nothing else ages meanwhile"""
    pool = [f for f in fns if prof["sel"](f) and f["fl"] in ("g", "t") and f["ttl"] and f["sig"] == 0 and not f["gates"]
            and not f["cache_if"] and not f["mem"]]
    if not pool:
        return None
    f = r.pick(pool)
    T = f["ttl"] * 1000
    x = r.pick([1, 2])
    tid = r.below(prof["threads"])
    vc = [r.below(40)]

    def ev(dt, inv=0, slow=0):
        if prof["pure"]:
            v = (f["idx"] * 37 + x * 11) % 500 + 1
        else:
            vc[0] += 1
            v = vc[0]
        base = "%d %d %d ok %d 8 %d 1" % (f["idx"], x, tid, v, inv)
        return ("E %d calls %s %d" % (dt, base, slow)) if slow else ("E %d call %s" % (dt, base))
    evs = [ev(0)]
    if f["inval_on"] and r.chance(2, 3):
        evs.append(ev(250, inv=1, slow=T + 150))      # judged stale, refreshed by a slow body
    else:
        evs.append(ev(T, slow=T + 150))               # expired, refreshed by a slow body
    evs.append(ev(0))                                 # must be served
    evs.append(ev(T - 250))                           # still younger than the ttl: served
    evs.append(ev(250))                               # now it is T old: expired
    return [f], evs


def gen_tight_replace_case(r, fns):
    """max_memory with room for exactly two values: one key is cached; a call for a second key is suspended in its body;
    another call for that second key completes and stores; the first resumes and stores again (a pure replacement):
    nothing may be evicted"""
    gated = [f for f in fns if f["gates"] and f["mem"] and f["mem"] >= 64 and not f["cache_if"] and not f["inval_on"] and f["ret"] in (1, 3)]
    if not gated:
        return None
    f = r.pick(gated)
    ln = f["mem"] // 2 - 24 - r.below(3)
    ev = lambda kind, x, v, tid: "E 0 %s %d %d %d ok %d %d 0 1" % (kind, f["idx"], x, tid, v, ln)
    evs = [ev("call", 1, 1, 0), ev("callA", 2, 2, 3), ev("call", 2, 3, 1), "E 0 callB", ev("call", 1, 4, 0), ev("call", 2, 5, 0)]
    return [f], evs


def gen_async_case(r, fns, sel=None):
    """a call suspended at an await point of its body; other operations meanwhile; resume or drop"""
    gated = [f for f in fns if f["gates"]]
    if sel is not None and any(sel(f) for f in gated):
        gated = [f for f in gated if sel(f)]
    f = r.pick(gated)
    others = [g for g in fns if g["fl"] != "t" and g["idx"] != f["idx"] and not g["gates"] and g["ret"] != 6]
    g = r.pick(others)
    cap = (f["limit"] or 3) + 2
    evs, vc = [], [0]
    has_ttl = f["ttl"] is not None

    def call(h, x, kind="call", tid=None):
        vc[0] += 1
        ok = r.chance(3, 4) if h["is_result"] else True
        dt = r.pick([0, 0, 0, 1000, 2000]) if has_ttl else 0
        return "E %d %s %d %d %d %s %d %d %d %d" % (dt, kind, h["idx"], x, r.below(3) if tid is None else tid, "ok" if ok else "err",
                                                   vc[0], r.pick(LENS), 1 if r.chance(1, 3) else 0, 1 if r.chance(2, 3) else 0)
    for _ in range(r.below(4)):
        evs.append(call(f, r.below(cap)))
    for rnd in range(1 + r.below(2)):
        x = r.below(cap)
        evs.append(call(f, x, "callA", 3))
        for _ in range(r.below(5)):
            k = r.below(10)
            if k < 4:
                evs.append(call(f, x if r.chance(1, 2) else r.below(cap)))      # same key / same cache meanwhile
            elif k < 6:
                evs.append(call(g, 0 if g["sig"] == 3 else r.below(3)))
            elif k == 6:
                evs.append("E 0 invw %d %d" % (f["idx"], x))
            elif k == 7:
                evs.append("E 0 tag t1")
            elif k == 8:
                if r.chance(1, 6):
                    evs.append("E 2000 rsleep 1100")       # real time passes while the call is suspended
                else:
                    evs.append("E %d nop" % r.pick([1000, 2000]))
            else:
                evs.append("E 0 sget %d" % f["idx"])
        evs.append("E %d %s" % (r.pick([0, 0, 1000]) if has_ttl else 0, "callB" if r.chance(1, 2) else "callD"))
        for _ in range(1 + r.below(3)):
            evs.append(call(f, x if r.chance(1, 2) else r.below(cap)))
    # a suspended call may have been skipped (served from the cache); callB/callD need a suspended call:
    return [f, g], evs


def gen_lifetime_case(r, fns, prof):
    """lifetime probes on a function with ttl: store, hits below T, optionally a second store of the same key
    (stale refresh through invalidate_on, or invalidation + call) whose life starts THEN, a refresh that
    cache_if rejects after the entry expired, and lookups just before / at / after the end of the entry's life;
    other keys are stored in between so that limits and evictions are in play"""
    pool = [f for f in fns if prof["sel"](f) and f["ttl"] and f["sig"] == 0]
    if not pool:
        return None
    f = r.pick(pool)
    T = f["ttl"] * 1000
    step = 1000 if f["fl"] == "a" else 250
    cap = (f["limit"] or 3) + 2
    vc = [0]

    def ev(t, x, inv=0, cif=1, ok=True):
        if prof["pure"]:
            v, okk, ln = (f["idx"] * 37 + x * 11) % 500 + 1, ((x % 3 != 0) if f["is_result"] else True), LENS[x % 5]
        else:
            vc[0] += 1
            v, okk, ln = vc[0], ok, 8
        return (t, "call %d %d 0 %s %d %d %d %d" % (f["idx"], x, "ok" if okk else "err", v, ln, inv, cif))
    events = []
    x = 1 if (prof["pure"] and f["is_result"]) else r.below(cap)
    if prof["pure"] and f["is_result"] and x % 3 == 0:
        x += 1
    t0 = r.below(3) * step
    events.append(ev(t0, x))
    for d in sorted(set(r.below(max(1, T // step)) * step for _ in range(r.below(3)))):
        events.append(ev(t0 + d, x))
    if T > step and r.chance(1, 2):
        d2 = (1 + r.below(T // step - 1)) * step
        if f["inval_on"]:
            events.append(ev(t0 + d2, x, inv=1))
        else:
            events.append((t0 + d2, "invw %d %d" % (f["idx"], x)))
            events.append(ev(t0 + d2, x))
        t0 += d2
    events.append(ev(t0 + T - step, x))
    if f["is_result"] and not f["cache_if"] and not prof["pure"] and r.chance(1, 2):
        # the entry expires and the refreshing call FAILS (nothing is stored); then other keys succeed
        events.append(ev(t0 + T, x, ok=False))
        if r.chance(1, 2):
            events.append(ev(t0 + T, x, ok=False))
        for y in range(cap):
            if y != x:
                events.append(ev(t0 + T, y))
        for y in range(cap):
            if y != x and r.chance(2, 3):
                events.append(ev(t0 + T, y))
    elif f["cache_if"] and not prof["pure"] and r.chance(1, 2):
        # the entry expires, the refresh is rejected; then other keys are accepted and must be served
        events.append(ev(t0 + T, x, cif=0))
        for y in range(1 + r.below(cap)):
            if y != x:
                events.append(ev(t0 + T, y))
                events.append(ev(t0 + T, y))
    else:
        events.append(ev(t0 + T, x))
        events.append(ev(t0 + T + step, x))
    for _ in range(r.below(4)):
        y = r.below(cap)
        events.append(ev(r.below(4) * step + r.below(T // step + 1) * step, y))
    events.sort(key=lambda e: e[0])
    evs, now = [], 0
    for t, body in events:
        evs.append("E %d %s" % (t - now, body))
        now = t
    return [f], evs


def gen_pingpong_case(r, fns, prof):
    """one shared cache with a small limit used by several threads in turn: each thread keeps hitting its
    own key while the others hit or store theirs; every hit must count for the shared recency order"""
    pool = [f for f in fns if prof["sel"](f) and f["fl"] != "t" and f["limit"] and f["limit"] >= 2 and f["sig"] == 0
            and not f["ttl"] and not f["mem"] and not f["inval_on"] and not f["cache_if"] and not f["is_result"]]
    if not pool:
        return None
    f = r.pick(pool)
    L = f["limit"]
    nthreads = max(2, prof["threads"])

    def ev(x, tid):
        return "E 0 call %d %d %d ok %d %d 0 1" % (f["idx"], x, tid, (f["idx"] * 37 + x * 11) % 500 + 1, LENS[x % 5])
    evs = [ev(x, 0) for x in range(L)]
    nxt = L
    for rnd in range(2 + r.below(4)):
        own = [(t, r.below(L + 1)) for t in range(nthreads)]
        for _ in range(1 + r.below(3)):
            for t, x in own:
                if r.chance(3, 4):
                    evs.append(ev(x, t))
        if r.chance(2, 3):
            evs.append(ev(nxt % (L + 3), r.below(nthreads)))
            nxt += 1
    for x in range(L + 3):
        if r.chance(1, 2):
            evs.append(ev(x, r.below(nthreads)))
    return [f], evs


def gen_refresh_case(r, fns, prof):
    """a cache at capacity whose OLDEST (or another chosen) entry is judged stale and refreshed, with a value of
    another size, followed by stores that need room: the refreshed entry is the newest one from then on"""
    pool = [f for f in fns if prof["sel"](f) and f["inval_on"] and (f["limit"] or f["mem"]) and f["sig"] == 0]
    if not pool:
        return None
    f = r.pick(pool)
    cap = f["limit"] or 3
    vc = [0]

    def ev(x, inv=0, ln=8, dt=0):
        vc[0] += 1
        if prof["pure"]:
            v, ln, ok = (f["idx"] * 37 + x * 11) % 500 + 1, LENS[x % 5], ((x % 3 != 0) if f["is_result"] else True)
        else:
            v, ok = vc[0], True
        return "E %d call %d %d 0 %s %d %d %d 1" % (dt, f["idx"], x, "ok" if ok else "err", v, ln, inv)
    evs = [ev(x) for x in range(cap)]
    for _ in range(r.below(3)):
        evs.append(ev(r.below(cap)))
    victim = 0 if r.chance(2, 3) else r.below(cap)
    evs.append(ev(victim, inv=r.pick([1, 1, 2]), ln=r.pick(LENS + [200, 200])))
    for x in range(cap, cap + 1 + r.below(2)):
        evs.append(ev(x, ln=r.pick(LENS[:3])))
    order = list(range(cap + 2))
    for x in order:
        if r.chance(2, 3):
            evs.append(ev(x))
    return [f], evs


def gen_exact_fit_case(r, fns, prof):
    """a value whose size is exactly max_memory (or one byte either side): it fits, is stored and served; the oracle takes
    the size from the harness, so a wrong guess of the inline size only makes the case an ordinary one"""
    pool = [f for f in fns if prof["sel"](f) and f["mem"] and f["ret"] in (1, 3) and f["sig"] == 0 and not f["gates"]]
    if not pool:
        return None
    f = r.pick(pool)
    inline = r.pick([24, 24, 24, 32])
    ln = f["mem"] - inline + r.pick([0, 0, 0, 0, -1, 1])
    if ln < 0:
        return None
    vc = [r.below(50)]

    def ev(x, ln=8, ok=True, inv=0):
        if prof["pure"]:
            v = (f["idx"] * 37 + x * 11) % 500 + 1
            ok = ((x % 3 != 0) if f["is_result"] else True)
        else:
            vc[0] += 1
            v = vc[0]
        return "E 0 call %d %d 0 %s %d %d %d 1" % (f["idx"], x, "ok" if ok else "err", v, ln, inv)
    evs = []
    for x in range(r.below(3)):
        evs.append(ev(4 + x, ln=r.pick(LENS[:3])))
    x = r.pick([1, 2])
    if f["is_result"] and not prof["pure"] and r.chance(1, 3):
        evs.append(ev(x, ln=ln, ok=False))
    evs.append(ev(x, ln=ln))
    evs.append(ev(x, ln=ln))
    if r.chance(1, 2):
        evs.append(ev(7, ln=r.pick(LENS[:3])))
        evs.append(ev(x, ln=ln))
    return [f], evs


def gen_twins_case(r, fns):
    """caches whose names are equal up to letter case / surrounding blanks: their statistics are kept apart"""
    groups = {}
    for f in fns:
        groups.setdefault(f["name"].strip().lower(), []).append(f)
    twins = [g for g in groups.values() if len(g) > 1]
    if not twins:
        return None
    group = r.pick(twins)
    evs = []

    def ev(f, x):
        return "E 0 call %d %d %d ok %d %d 0 1" % (f["idx"], x, r.below(3), (f["idx"] * 37 + x * 11) % 500 + 1, LENS[x % 5])
    for i, f in enumerate(group):
        for _ in range(1 + i + r.below(3)):
            evs.append(ev(f, r.below(3)))
    for f in group:
        evs.append("E 0 sget %d" % f["idx"])
    evs.append("E 0 sreset %d" % r.pick(group)["idx"])
    for f in group:
        evs.append(ev(f, r.below(3)))
        evs.append("E 0 sget %d" % f["idx"])
    return group, evs


def gen_mass_case(r, fns):
    """every cache of a large group under one label is used, the label is fired, every cache is used again"""
    group = [f for f in fns if "mass" in f["tags"]]
    if len(group) < 17:
        return None
    evs = []

    def calls():
        for f in group:
            for x in range(1 + r.below(2)):
                evs.append("E 0 call %d %d 0 ok %d %d 0 1" % (f["idx"], x, (f["idx"] * 37 + x * 11) % 500 + 1, LENS[x % 5]))
    calls()
    evs.append("E 0 %s" % r.pick(["tag mass", "event massev"]))
    calls()
    if r.chance(1, 2):
        evs.append("E 0 %s" % r.pick(["tag mass", "event massev", "tag t1"]))
        calls()
    return group, evs


def gen_score_case(r, fns, prof):
    """score races through the generated functions: a cache with an entry limit under LFU / ARC / TLRU (preferably one
    with a frequency_weight) is filled, its entries get chosen numbers of hits in a random order, a new key overflows
    it; repeated; finally every key is looked up.  The victim must minimise the documented score."""
    pool = [f for f in fns if prof["sel"](f) and f["pol"] in ("lfu", "arc", "tlru") and f["limit"] and f["limit"] >= 2
            and f["sig"] == 0 and not f["mem"] and not f["inval_on"] and not f["cache_if"] and not f["is_result"]]
    if not pool:
        return None
    weighted = [f for f in pool if f["fw"]]
    f = r.pick(weighted) if weighted and r.chance(2, 3) else r.pick(pool)
    L = f["limit"]

    def ev(x, dt=0):
        return "E %d call %d %d 0 ok %d %d 0 1" % (dt, f["idx"], x, (f["idx"] * 37 + x * 11) % 500 + 1, LENS[x % 5])
    evs = [ev(x) for x in range(L)]
    live = list(range(L))
    nxt = L
    for rnd in range(2 + r.below(3)):
        hits = []
        for x in live:
            hits += [x] * r.pick([0, 1, 1, 2, 3, 3, 5])
        # random order of the hits (Fisher-Yates on the shared stream)
        for i in range(len(hits) - 1, 0, -1):
            j = r.below(i + 1)
            hits[i], hits[j] = hits[j], hits[i]
        evs += [ev(x) for x in hits]
        newk = nxt % (L + 3)
        nxt += 1
        evs.append(ev(newk))
        live = [x for x in live if x != newk] + [newk]     # the model decides who really stays; this is only the visiting list
    for x in range(L + 3):
        evs.append(ev(x))
    return [f], evs


def gen_bulk_inval_case(r, fns, prof):
    """a recency-ordered cache is filled, an old entry is used again, then ONE invalidate_with removes more entries than
    it leaves; afterwards new keys are stored until survivors are evicted: their order must be the old one"""
    pool = [f for f in fns if prof["sel"](f) and f["fl"] != "t" and f["sig"] == 0 and (f["limit"] or 0) >= 5
            and not f["ttl"] and not f["mem"] and not f["inval_on"] and not f["cache_if"] and not f["is_result"]]
    if not pool:
        return None
    f = r.pick(pool)
    L = f["limit"]

    def ev(x):
        return "E 0 call %d %d 0 ok %d %d 0 1" % (f["idx"], x, (f["idx"] * 37 + x * 11) % 500 + 1, LENS[x % 5])
    evs = [ev(x) for x in range(L)]
    for _ in range(1 + r.below(3)):
        evs.append(ev(r.below(L)))                       # hits that make an older entry the most recent one
    keep = sorted(set([r.below(L), r.below(L)]))
    if len(keep) < 2:
        keep = [0, L - 1]
    gone = [x for x in range(L) if x not in keep]
    evs.append("E 0 invw %d %s" % (f["idx"], ",".join(map(str, gone))))
    for x in range(L, min(L + L, 12)):                    # refill and overflow (keys stay inside the named alphabet)
        evs.append(ev(x))
    for x in keep:
        evs.append(ev(x))
    return [f], evs


def gen_case(r, fns, prof, nev):
    if prof.get("async_susp"):
        k = r.below(12)
        c = gen_slow_refresh_case(r, fns) if k < 2 else gen_tight_replace_case(r, fns) if k < 4 else None
        return c or gen_async_case(r, fns)
    if prof.get("async_cases") and r.chance(1, 8):
        c = gen_slow_refresh_case(r, fns) if (r.chance(1, 2) and not prof.get("async_sel")) else None
        return c or gen_async_case(r, fns, prof["sel"] if prof.get("async_sel") else None)
    if prof.get("heavy_inval") and r.chance(1, 10):
        c = gen_bulk_inval_case(r, fns, prof)
        if c:
            return c
    if prof.get("scores") and r.chance(1, 5):
        c = gen_score_case(r, fns, prof)
        if c:
            return c
    if prof.get("heavy_inval") and r.chance(1, 12):
        c = gen_mass_case(r, fns)
        if c:
            return c
    if prof.get("twins") and r.chance(1, 12):
        c = gen_twins_case(r, fns)
        if c:
            return c
    if prof.get("slowbody") and r.chance(1, 16):
        c = gen_slow_body_case(r, fns, prof)
        if c:
            return c
    if prof.get("exactfit") and r.chance(1, 8):
        c = gen_exact_fit_case(r, fns, prof)
        if c:
            return c
    if prof.get("refresh") and r.chance(1, 5):
        c = gen_refresh_case(r, fns, prof)
        if c:
            return c
    if prof.get("pingpong") and r.chance(1, 5):
        c = gen_pingpong_case(r, fns, prof)
        if c:
            return c
    if prof.get("lifetime") and r.chance(1, 4):
        c = gen_lifetime_case(r, fns, prof)
        if c:
            return c
    if prof.get("heavy_inval") and r.chance(1, 6):
        return gen_chain_case(r, fns)
    pool = [f for f in fns if prof["sel"](f)]
    k = 1 + r.below(3)
    chosen = []
    for _ in range(k):
        f = r.pick(pool)
        if f not in chosen:
            chosen.append(f)
    if prof.get("heavy_inval") and r.chance(1, 3):
        # a group of caches whose labels overlap or whose names are labels of one another
        labelled = [f for f in pool if f["tags"] or f["events"] or f["deps"]]
        if labelled:
            seed_f = r.pick(labelled)
            labels = set(seed_f["tags"] + seed_f["events"] + seed_f["deps"] + [seed_f["name"]])
            group = [f for f in labelled if labels & set(f["tags"] + f["events"] + f["deps"] + [f["name"]])]
            chosen = group[:4] if len(group) <= 4 else [r.pick(group) for _ in range(4)]
            chosen = list({f["idx"]: f for f in chosen}.values())
    evs = []
    vcount = 0
    heavy = prof.get("heavy_inval", False)
    for _ in range(nev):
        f = r.pick(chosen)
        has_ttl = any(g["ttl"] for g in chosen)
        dt = 0
        if has_ttl:
            dt = r.pick([0, 0, 0, 0, 1000, 1000, 2000, 3000]) if any(g["fl"] == "a" for g in chosen) \
                else r.pick([0, 0, 0, 250, 500, 1000, 1000, 2000, 3000])
        other = prof["events"]
        if other and r.chance(3 if heavy else 2, 10):
            kind = r.pick(other)
            if kind == "tick":
                evs.append("E %d nop" % r.pick([1000, 2000]))
            elif kind == "tag":
                evs.append("E %d tag %s" % (dt, r.pick(TAGS)))
            elif kind == "event":
                evs.append("E %d event %s" % (dt, r.pick(EVENTS)))
            elif kind == "dep":
                evs.append("E %d dep %s" % (dt, r.pick(DEPS)))
            elif kind == "invc":
                evs.append("E %d invc %d" % (dt, f["idx"]))
            elif kind == "invcn":
                # also the IDENTIFIER of a function whose cache carries another name: no cache is called that
                evs.append("E %d invcn %s" % (dt, r.pick(["nosuch", "f999", "t1"] + ["f%d" % g["idx"] for g in chosen if g["name"] != "f%d" % g["idx"]])))
            elif kind == "invw":
                cap = 1 if f["sig"] == 3 else (f["limit"] or 3) + 2
                xs = sorted(set(r.below(cap) for _ in range(r.below(3) + 1)))
                evs.append("E %d invw %d %s" % (dt, f["idx"], ",".join(map(str, xs))))
            elif kind == "invwb":
                g = r.pick([h for h in chosen if h["fl"] != "t"] or chosen)
                evs.append("E %d invwb %d %d" % (dt, g["idx"], r.below(4)))
            elif kind == "invwn":
                evs.append("E %d invwn %s" % (dt, r.pick(["nosuch"] + ["f%d" % g["idx"] for g in chosen if g["name"] != "f%d" % g["idx"]])))
            elif kind == "invall":
                parts = []
                for g in chosen:
                    if r.chance(2, 3):
                        cap = 1 if g["sig"] == 3 else (g["limit"] or 3) + 2
                        xs = sorted(set(r.below(cap) for _ in range(r.below(3) + 1)))
                        parts.append("%d:%s" % (g["idx"], ",".join(map(str, xs))))
                evs.append("E %d invall %s" % (dt, ";".join(parts) or "-"))
            elif kind == "sget":
                evs.append("E %d sget %d" % (dt, f["idx"]))
            elif kind == "sgetn":
                evs.append("E %d sgetn nosuch" % dt)
            elif kind == "sreset":
                evs.append("E %d sreset %d" % (dt, f["idx"]))
            continue
        cap = (f["limit"] or 3) + 2
        x = 0 if f["sig"] == 3 else r.below(cap)
        tid = r.below(prof["threads"])
        if prof["pure"]:
            v = (f["idx"] * 37 + x * 11) % 500 + 1
            ok = (x % 3 != 0) if f["is_result"] else True
            ln = LENS[x % 5]
        else:
            vcount += 1
            v = vcount
            ok = r.chance(2, 3) if f["is_result"] else True
            ln = r.pick(LENS + [200]) if any(g["mem"] for g in chosen) else r.pick(LENS)
        inv = 1 if r.chance(1, 3) else 0
        cif = 1 if r.chance(2, 3) else 0
        evs.append("E %d call %d %d %d %s %d %d %d %d" % (dt, f["idx"], x, tid, "ok" if ok else "err", v, ln, inv, cif))
        if prof.get("echo") and prof["threads"] > 1 and r.chance(1, 3):
            # the same call again at once from another thread: shared (global, async) or separate (thread scope)
            t2 = (tid + 1 + r.below(prof["threads"] - 1)) % prof["threads"]
            evs.append("E 0 call %d %d %d %s %d %d %d %d" % (f["idx"], x, t2, "ok" if ok else "err", v, ln, 0, cif))
    return chosen, evs


def main():
    ap = argparse.ArgumentParser()
    ap.add_argument("--table", required=True)
    ap.add_argument("--prop", default="C19")
    ap.add_argument("--seed", type=int, default=1)
    ap.add_argument("--count", type=int, default=100)
    ap.add_argument("--nev", type=int, default=24)
    ap.add_argument("--out", required=True)
    a = ap.parse_args()
    fns = read_table(a.table)
    prof = PROFILES[a.prop]
    if not prof["pure"]:
        # functions without a return value carry no value to compare: they are used with pure scripts only
        fns = [f for f in fns if f["ret"] != 6]
    r = Rng(a.seed * 7919 + sum(ord(c) for c in a.prop) * 31)
    hist_fn, hist_ev, samples = {}, {}, []
    with open(a.out, "w") as out:
        for i in range(a.count):
            nev = a.nev // 2 + r.below(a.nev)
            chosen, evs = gen_case(r, fns, prof, nev)
            cid = "%s-m-%d-%d" % (a.prop, a.seed, i)
            out.write("CASE %s %d\n" % (cid, r.below(1 << 31)))
            for e in evs:
                out.write(e + "\n")
                k = e.split()[2]
                hist_ev[k] = hist_ev.get(k, 0) + 1
            out.write("END\n")
            for f in chosen:
                key = "%s/%s%s%s%s" % (f["fl"], f["pol"], "/limit" if f["limit"] else "", "/ttl" if f["ttl"] else "",
                                       "/mem" if f["mem"] else "")
                hist_fn[key] = hist_fn.get(key, 0) + 1
            if i < 2:
                samples.append(dict(case=cid, functions=[f["idx"] for f in chosen], events=evs))
    json.dump(dict(cases=a.count, events=hist_ev, functions=hist_fn, samples=samples), sys.stdout)


if __name__ == "__main__":
    main()
