#!/usr/bin/env python3
"""mk_manifest.py — writes /verif/MANIFEST.json from the property table in vlib.py."""
import json
import os
import sys
sys.path.insert(0, os.path.dirname(os.path.abspath(__file__)))
import vlib

TEXT = {
    "C01": ("Theorems (Coq): over every history, configuration and random choice, a lookup of the engine model returns the value of the latest store of exactly that key (C01_latest_value), and the generated wrapper returns the function's value for every deterministic body (C01w_*). Tied to the code by step-wise correspondence of the extracted model with the three real engines (values, key sets, outputs after every operation) and lockstep correspondence of the wrapper model with 132 macro-generated functions compared with their scripted bodies.", "4/7 C01"),
    "C04": ("Theorem (Coq): for limit = L >= 1 every reachable state of the engine model (3 flavours x 6 policies x any ttl/max_memory/history/random choices) holds at most L entries; an overflowing store removes exactly one key, a non-overflowing one none (C04_entry_limit, from the invariant queue == keys, NoDup, |store| <= L). Tied to the code by step-wise correspondence on key sets and queue after every operation.", "4/7 C04"),
    "C05": ("Theorems (Coq): after every insert_with_memory of the model the total size is <= M, an oversize value is not cached and displaces nothing else, and victims are taken only while the total does not fit (C05_memory_limit); MemoryEstimator = inline size + owned heap for every value of the supported grammar, for any layout (parts/memest). Tied to the code by correspondence on key sets and sizes, and by a differential run of the real estimate_memory().", "4/7 C05"),
    "C06": ("Theorems (Coq): a lookup of an entry whose age reached the ttl returns nothing, purges store and queue and counts a miss; a younger entry is served; whole-second clock lemmas for the async cache (C06_*). Tied to the code by correspondence under virtual time (entry birth times re-stamped by the harness; the engines' own expiry code runs).", "4/7 C06"),
    "C15": ("Theorems (Coq): every lookup increments exactly one counter, hits iff a value was returned; hits + misses = number of lookups over any history (C15_*); registry: statistics found under the cache name, reset touches only that cache. Tied to the code by correspondence on counters after every operation (core engines) and stats_registry::get after every event (macro level).", "4/7 C15"),
}

def main():
    props = [json.loads(l) for l in open("/verif/properties.jsonl")]
    claimed = vlib.PROPS
    checks = []
    for p in props:
        pid = p["id"]
        if pid not in claimed:
            continue
        spec = claimed[pid]
        text, ref = TEXT.get(pid, (spec.get("text", "machine-checked theorems about the executable Gallina model + checked correspondence with the implementation"), "7 " + pid))
        checks.append(dict(
            property_id=pid,
            quick_cmd="./check %s --tier quick" % pid,
            thorough_cmd="./check %s --tier thorough" % pid,
            evidence_file="/verif/evidence/%s.json" % pid,
            replay_cmd_template="./check %s --replay {path}" % pid,
            engine="+".join(sorted(set(pt["kind"] for pt in spec["parts"]))),
            level_claimed=dict(category="proof", text=spec.get("text", text), design_ref="DESIGN.md section " + ref),
            level_note=spec.get("note", "Trusted: Coq 8.16.1 kernel; extraction (ExtrOcamlBasic) + OCaml drivers; the Rust harnesses and case generators; agreement model/implementation holds on the explored traces only. Print Assumptions of every property theorem: closed under the global context."),
            technique="machine-checked proof in Coq (invariant by induction over operation lists) + differential correspondence of the extracted model with the real code",
        ))
    na = [dict(property_id=p["id"], reason=vlib.NOT_YET.get(p["id"], "check not built yet (will be claimed once its theorems are proved and its check runs clean)"))
          for p in props if p["id"] not in claimed]
    m = dict(version=1, setup_cmd="./setup.sh",
             hooks=dict(guard="verif (cargo feature of cachelito-core, cachelito-macros, cachelito-async-macros; off by default)",
                        enable="harness crates depend on the three crates with features = [\"verif\"]",
                        baseline_off_cmd="cd /repo && cargo test --workspace --no-fail-fast --offline",
                        source_commits=vlib.HOOK_COMMITS, add_only=True),
             engines=[
                 dict(name="E1 seqcore", path="coq/SeqModel.v coq/Spec.v harness/vh-core ocaml/driver.ml", serves_properties=["C01", "C04", "C05", "C06", "C07", "C08", "C15", "C16"], kind_free_text="Gallina model of the three engines + step-wise differential run"),
                 dict(name="E2 wrapper", path="coq/Wrapper.v harness/vh-macro ocaml/e2_driver.ml tools/gen_corpus.py", serves_properties=["C01", "C03", "C09", "C10", "C11", "C12", "C13", "C14", "C15", "C16", "C19"], kind_free_text="Gallina model of the generated wrapper and registries + lockstep differential run on a generated corpus of macro-expanded functions"),
             ],
             checks=checks, notes="see DESIGN.md", not_applicable=na)
    json.dump(m, open("/verif/MANIFEST.json", "w"), indent=1)
    print("claimed:", [c["property_id"] for c in checks])

if __name__ == "__main__":
    main()
