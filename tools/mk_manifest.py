#!/usr/bin/env python3
"""mk_manifest.py — writes /verif/MANIFEST.json from the property table in vlib.py."""
import json
import os
import sys
sys.path.insert(0, os.path.dirname(os.path.abspath(__file__)))
import vlib

TEXT = {
    "C01": ("Theorems: over every history, configuration and choice list a lookup of the engine model returns the value of the latest store of exactly that key (C01_latest_value); the generated wrapper returns f(key) for every deterministic body, whatever limits, ttl, memory, predicates, invalidations occur (C01w_returns_function_value). Tied to the code by step-wise correspondence with the three real engines and with 254 macro-generated functions (oracle: returned value = function's value; methods on two receivers).", "7 C01"),
    "C02": ("Theorem C02_key_injective: for every signature (receiver + arguments of nested built-in and derived-Debug types) equal keys imply equal argument tuples, for both key generators (typed parser round-trip over a model of Rust's Debug). Tied to the code by comparing the real key strings of 48 signatures with the model code point by code point, collision tests on near-miss pairs, and a macro part with pattern parameters.", "7 C02"),
    "C03": ("Theorem C03_computed_once: without limit/ttl/memory/predicates the body runs iff the key did not occur before and later calls return the first result; concurrency: C03_stored_stays_stored / C03_after_a_store_every_lookup_hits (sync, critical-section model) and C03_async_store_seen_by_lock_free_readers (async, between the map operations of a store: a stored key that stays stored is never absent), plus C18's invariants. Tied to the code by execution counters on generated histories over three threads, bodies with early return, and overlapping real-time lookups of a stored key (both must be served).", "7 C03"),
    "C04": ("Theorem C04_entry_limit: for limit L >= 1 every reachable state of the engine model holds at most L entries, an overflowing store removes exactly one key, others none (invariant: queue == keys, NoDup, |store| <= L). Tied to the code by step-wise correspondence on key sets and queue (engines) and an independent limit oracle on macro-generated functions with invalidations in the history.", "7 C04"),
    "C05": ("Theorems C05_memory_limit (total <= M after every insert_with_memory; oversize not cached and displaces nothing; victims only while it does not fit) and C05_memest_estimate_is_footprint (estimate = inline size + owned heap for any layout). Tied to the code by correspondence on keys and sizes and a differential run of the real estimate_memory() on 49 types in debug and release.", "7 C05"),
    "C06": ("Theorems C06_ttl (age >= ttl: not served, purged from store and queue, one miss; younger: served) and the whole-second clock lemmas for the async cache. Tied to the code under virtual time (re-stamped births, the engines' own expiry code runs), real-time async cases at chosen sub-second phases, and a ttl oracle at macro level.", "7 C06"),
    "C07": ("Theorems C07_fifo_lru_victims, C07_queue_sorted_by_stamp and C07_hit_is_a_use_under_concurrency (every victim is older by store stamp / use stamp than every survivor, entry limit or memory pressure, all flavours). Tied to the code by queue-order correspondence and an order oracle computed from the implementation's own history; under concurrency by schedules in which a hit overlaps another thread's store (the key looked up must outlive the entries neither thread touched).", "7 C07"),
    "C08": ("Theorem C08_lowest_score_evicted: the removed keys can be ordered so that each minimises hits^n*(rank*remaining)^d among the keys still competing; ties arbitrary (the model accepts any minimiser). Tied to the code by correspondence on keys, queue and hit counters with score-race scenarios, and a score oracle at macro level.", "7 C08"),
    "C09": ("Theorems C09_err_not_stored, C09_served_is_ok, C09_ok_then_served, and under ANY limit/ttl/max_memory C09_ok_stored_under_limits, C09_ok_then_served_under_limits, C09_oversize_not_stored (FIFO/LRU and every async policy: the entry being stored survives its own store). Tied to the code on Result and std::result::Result functions (also with explicit `return Ok`) with scripted Ok/Err outcomes, value sizes computed independently of the library (oracles: no Err stored or served; an Ok that fits is stored and then served; limit and memory frame conditions).", "7 C09"),
    "C10": ("Theorems C10_consulted_once_per_execution, C10_rejected_not_stored, C10_rejected_changes_nothing, C10_absent_key_runs_body, C10_accepted_stored, C10_accepted_stored_under_limits. Tied to the code by the log of predicate consultations (one (key, result) per execution, none on hits), store contents (what the decision rejects is not stored, what it accepts and fits is), lifetime scenarios with rejected refreshes.", "7 C10"),
    "C11": ("Theorems C11_stale_not_served_and_replaced, C11_fresh_served. Tied to the code with checks whose verdict changes between calls (oracle: stale never served, fresh value replaces the stale entry).", "7 C11"),
    "C12": ("Theorems C12_group_invalidation (matching caches emptied in store and queue, others untouched, count exact, three distinct tables), C12_invalidate_cache_by_name, C12_cleared_cache_recomputes. Tied to the code on overlapping labels, chains, self-references and repeated invalidations.", "7 C12"),
    "C13": ("Theorems C13_invalidate_with_is_a_filter, C13_invalidate_with_touches_one_cache, C13_removed_exactly_the_matching_entries, C13_invalidate_all_with. Tied to the code by frame oracles over every cache instance (store and queue of the target = filter, everything else unchanged).", "7 C13"),
    "C14": ("Theorems C14_call_touches_one_instance, C14_call_is_the_instances_own_call, C14_thread_scope_registers_nothing (thread scope = one world entry per (function, thread)); C14_fresh_entry_served_across_lookups and C14_purge_removes_only_expired (concurrent model: lookups, hit bumps and expiry purges by any threads never remove or alter an unexpired entry). Tied to the code on four real threads (isolation oracle) and by overlapping lookups for the sharing clause.", "7 C14"),
    "C15": ("Theorems C15_each_lookup_counts_once, C15_total, C15_stats_by_name, C15_reset_touches_one_cache, and C15_every_lookup_booked_once_under_concurrency (lookup protocol with its two phases and the later recency section, arbitrary environment in between: hits + misses = lookups at quiescence). Tied to the code by counters after every operation, stats_registry::get by name, free-running threads with exact lookup counts, and the statistics at the quiescent end of every two- and three-thread schedule (hits + misses = completed calls).", "7 C15"),
    "C16": ("Theorems: every thread-local code path respects the RefCell discipline (and the unrepaired path is refuted), the evict-until-it-fits loop reaches its own exit, the random index is in range. Tied to the code by catch_unwind around every operation over the configuration product at engine and macro level.", "7 C16"),
    "C17": ("Theorems C17_lock_programs_respect_one_order, C17_no_deadlock and C17_no_deadlock_for_ordered_traces: locks acquired in strictly increasing rank, hence some thread can always move, for any threads, traces and schedules. Tied to the code by checking the theorem's hypothesis (trace_ordered, extracted) on 1 500 recorded lock traces, and by two- and three-thread schedules on the real code with deadlock detection and a watchdog for calls that never return.", "7 C17"),
    "C18": ("Theorems C18_quiescent_consistent and C18_tracked_or_pending about an abstract transition system of the sync cache at critical-section granularity, C18_async_consistent_always / _values / _memory about the async cache as interleaved atomic sections (invariants in EVERY state), and C18_seq_run_is_conc_reachable / C18_seq_async_step_is_arun: both concurrent models contain the sequential model that is compared step by step with the real engines. Tied to the code by invariants observed at quiescence AND between critical sections over enumerated schedules, overlapping lookups and stress runs.", "7 C18"),
    "C19": ("Theorems about the attribute-list model (fields as written, permutation invariance, last wins, any rejected attribute anywhere is a compile error) and the wrapper model. Tied to the code by 3 216 attribute lists against the real parser, a crate of invalid and valid items through cargo check, and the whole generated corpus compiling and behaving like the model under every oracle.", "7 C19"),
    "C20": ("Theorems C20_call_is_lookup_then_store, C20_dropped_call_is_lookup_only, C20_resumed_call_stores_normally, C20_suspended_call_holds_no_lock. Tied to the code by polling generated futures by hand, running other operations while suspended under a watchdog, then resuming or dropping.", "7 C20"),
}

def main():
    props = [json.loads(l) for l in open("/verif/properties.jsonl")]
    claimed = vlib.PROPS
    checks = []
    for p in props:
        pid = p["id"]
        if pid not in claimed:
            continue
        spec = claimed[pid]
        text, ref = TEXT.get(pid, (spec.get("text", "machine-checked theorems about the executable Gallina model + checked correspondence with the implementation"), "7 " + pid))
        checks.append(dict(
            property_id=pid,
            quick_cmd="./check %s --tier quick" % pid,
            thorough_cmd="./check %s --tier thorough" % pid,
            evidence_file="/verif/evidence/%s.json" % pid,
            replay_cmd_template="./check %s --replay {path}" % pid,
            engine="+".join(sorted(set(pt["kind"] for pt in spec["parts"]))),
            level_claimed=dict(category="proof", text=text, design_ref="DESIGN.md section " + ref),
            level_note=spec.get("note", "Trusted: Coq 8.16.1 kernel; extraction (ExtrOcamlBasic) + OCaml drivers; the Rust harnesses and case generators; agreement model/implementation holds on the explored traces only. Print Assumptions of every property theorem: closed under the global context."),
            technique="machine-checked proof in Coq (invariant by induction over operation lists) + differential correspondence of the extracted model with the real code",
        ))
    na = [dict(property_id=p["id"], reason=vlib.NOT_YET.get(p["id"], "check not built yet (will be claimed once its theorems are proved and its check runs clean)"))
          for p in props if p["id"] not in claimed]
    m = dict(version=1, setup_cmd="./setup.sh",
             hooks=dict(guard="verif (cargo feature of cachelito-core, cachelito-macros, cachelito-async-macros; off by default)",
                        enable="harness crates depend on the three crates with features = [\"verif\"]",
                        baseline_off_cmd="cd /repo && cargo test --workspace --no-fail-fast --offline",
                        source_commits=vlib.HOOK_COMMITS, add_only=True),
             engines=[
                 dict(name="E1 seqcore", path="coq/SeqModel.v coq/Spec.v harness/vh-core ocaml/driver.ml", serves_properties=["C01", "C04", "C05", "C06", "C07", "C08", "C15", "C16"], kind_free_text="Gallina model of the three engines + step-wise differential run"),
                 dict(name="E2 wrapper", path="coq/Wrapper.v coq/AsyncCall.v harness/vh-macro ocaml/e2_driver.ml tools/gen_corpus.py", serves_properties=["C01", "C02", "C03", "C04", "C06", "C07", "C08", "C09", "C10", "C11", "C12", "C13", "C14", "C15", "C16", "C19", "C20"], kind_free_text="Gallina model of the generated wrapper, registries and two-phase async call + step-wise differential run on a generated corpus of macro-expanded functions"),
                 dict(name="E3 keys", path="parts/keys", serves_properties=["C02"], kind_free_text="model of Debug-rendered keys, parser round trip, differential run on real key strings"),
                 dict(name="E4 memest", path="parts/memest", serves_properties=["C05"], kind_free_text="model of the MemoryEstimator impls + differential run"),
                 dict(name="E5 attrs", path="parts/attrs", serves_properties=["C19"], kind_free_text="model of the attribute parser + differential run + compile-fail corpus"),
                 dict(name="E6 conc", path="parts/locks coq/ConcModel.v harness/vh-macro/src/conc.rs tools/gen_sched.py", serves_properties=["C03", "C07", "C12", "C14", "C15", "C17", "C18", "C20"], kind_free_text="lock-order theory and programs, abstract concurrent model, lock traces and schedules on the real code"),
             ],
             checks=checks, notes="see DESIGN.md", not_applicable=na)
    json.dump(m, open("/verif/MANIFEST.json", "w"), indent=1)
    print("claimed:", [c["property_id"] for c in checks])

if __name__ == "__main__":
    main()
