#!/bin/bash
# confirm_mutant.sh <out-dir> <A|B> <demo-dest-relative-path>
# Confirms a candidate seeded change in a scratch worktree of /repo:
#   existing suite passes with the change; the demo fails with it and passes without it.
set -u
OUT="$1"; V="$2"; DEST="$3"
WT=/tmp/confirm/wt_$$
export CARGO_NET_OFFLINE=true CARGO_TARGET_DIR=/tmp/confirm/target${SLOT:-}
mkdir -p /tmp/confirm
git -C /repo worktree add --detach "$WT" HEAD >/dev/null 2>&1 || exit 2
cd "$WT"
res() { grep -E "^test result" | awk '{p+=$4; f+=$6} END {print p" passed "f" failed"}'; }
cp "$OUT/demo$V.rs" "$DEST"
PKG=""; case "$DEST" in cachelito-async/*) PKG="-p cachelito-async";; esac
T=$(basename "$DEST" .rs)
echo "demo on HEAD:      $(timeout 900 cargo test --offline $PKG --test $T 2>&1 | res)"
git apply "$OUT/patch$V.diff" || { echo "patch does not apply"; cd /; git -C /repo worktree remove --force "$WT"; exit 3; }
echo "demo with change:  $(timeout 900 cargo test --offline $PKG --test $T 2>&1 | res)"
rm -f "$DEST"
echo "suite with change: $(timeout 1800 cargo test --workspace --offline --no-fail-fast 2>&1 | res)"
cd /
git -C /repo worktree remove --force "$WT"
