#!/usr/bin/env python3
"""gen_cases.py — generator of histories for the core-engine correspondence (E1).

One splitmix64 stream derived from --seed decides everything, so a run replays exactly.
Histories are structured and mostly valid: a key alphabet slightly larger than the
capacity, biased towards re-use (hits, re-stores, overflow exactly at the limit), time
steps clustered on the TTL boundary, value sizes straddling max_memory.

usage: gen_cases.py --prop C04 --seed N --count N --out FILE [--tier quick|thorough]
Prints a JSON summary (config / op histograms, samples) on stdout.
"""
import argparse
import json
import sys

MASK = (1 << 64) - 1


class Rng:
    def __init__(self, seed):
        self.s = seed & MASK

    def next(self):
        self.s = (self.s + 0x9E3779B97F4A7C15) & MASK
        z = self.s
        z = ((z ^ (z >> 30)) * 0xBF58476D1CE4E5B9) & MASK
        z = ((z ^ (z >> 27)) * 0x94D049BB133111EB) & MASK
        return z ^ (z >> 31)

    def below(self, n):
        return self.next() % n

    def pick(self, xs):
        return xs[self.below(len(xs))]

    def chance(self, num, den):
        return self.below(den) < num


POLICIES = ["fifo", "lru", "lfu", "arc", "random", "tlru"]
FLAVOURS = ["g", "t", "a"]
WEIGHTS = [None, (1, 10), (3, 10), (1, 1), (3, 2), (3, 1)]
INLINE = 24  # size_of::<String>()
SIZES = [28, 32, 40, 48, 64, 100]
MEMS = [64, 100, 130, 200]

# per property: which configurations and which operations matter
PROFILES = {
    # policies, need_limit, need_ttl, need_mem, allow_mem
    "C01": dict(),
    "C04": dict(need_limit=True),
    # extreme frequency weights (any float > 0 is a valid attribute value): scores overflow to
    # infinity; the limit must hold all the same
    "C04X": dict(need_limit=True, policies=["tlru"], streaks=True, extreme_weights=True),
    "C05": dict(need_mem=True, scenarios=True, streaks=True),
    "C06": dict(need_ttl=True, lifetime=True),
    "C07": dict(policies=["fifo", "lru"], need_pressure=True, streaks=True, scenarios=True),
    "C08": dict(policies=["lfu", "arc", "tlru"], need_pressure=True, extra_ttl=[6, 10, 6], streaks=True, scenarios=True),
    "C15": dict(limit0=True),
    "C16": dict(extremes=True, streaks=True),
    "ALL": dict(extra_ttl=[6], streaks=True),
}


def gen_cfg(r, prof):
    pols = prof.get("policies", POLICIES)
    pol = r.pick(pols)
    fl = r.pick(FLAVOURS)
    limit = r.pick([None, 1, 2, 3, 4])
    ttl = r.pick([None, None, 1, 2, 3] + prof.get("extra_ttl", []))
    mem = r.pick([None, None] + MEMS)
    if prof.get("extremes") and r.chance(1, 8):
        # a frequency weight at the end of the float range: scores overflow to infinity and, for an entry that has
        # outlived its ttl (lifetime factor 0), to NaN
        pol, ttl, limit = "tlru", r.pick([1, 2]), r.pick([1, 2, 3])
        fw = r.pick([(2000, 1), (1024, 1)]) if fl == "a" else r.pick([(10 ** 308, 1), (10 ** 307, 1)])
        return dict(fl=fl, pol=pol, limit=limit, ttl=ttl, mem=r.pick([None, None, 100]), fw=fw)
    if prof.get("extremes") and r.chance(1, 6):
        # the ends of the integer ranges the attributes accept (u64 / usize)
        k = r.below(4)
        if k == 0:
            ttl = r.pick([18446744073709551615, 18446744073709551614, 9223372036854775808, 18446744073000000000])
        elif k == 1:
            limit = r.pick([18446744073709551615, 9223372036854775807])
        elif k == 2:
            mem = r.pick([18446744073709551615, 9223372036854775808])
        else:
            ttl, limit = 18446744073709551615, 18446744073709551615
    if prof.get("limit0") and r.chance(1, 8):
        limit = 0          # accepted by the attribute parser; the statistics clause has no lower bound on the limit
    if prof.get("need_limit") and limit is None:
        limit = 1 + r.below(4)
    if prof.get("need_ttl") and ttl is None:
        ttl = 1 + r.below(3)
    if prof.get("need_mem") and mem is None:
        mem = r.pick(MEMS)
    if prof.get("need_pressure") and limit is None and mem is None:
        if r.chance(1, 2):
            limit = 1 + r.below(4)
        else:
            mem = r.pick(MEMS)
    fw = r.pick(WEIGHTS) if pol == "tlru" else None
    if prof.get("extreme_weights"):
        fw = r.pick([(2000, 1), (1024, 1), (64, 1)]) if fl == "a" else r.pick([(10 ** 308, 1), (10 ** 307, 1), (10 ** 300, 1)])
    return dict(fl=fl, pol=pol, limit=limit, ttl=ttl, mem=mem, fw=fw)


def gen_scenario(r, cfg):
    """score races for LFU/ARC/TLRU: fill the cache with entries of chosen popularity and age,
    revisit some of them, then overflow; repeat"""
    cap = cfg["limit"] if cfg["limit"] is not None else 3
    ttl = cfg["ttl"]
    is_async = cfg["fl"] == "a"
    ops, v = [], 0
    nextkey = 0
    steps = [0, 0, 1000, 1000, 2000] + ([max(1, ttl // 2) * 1000, (ttl - 1) * 1000] if ttl else [])
    if not is_async:
        steps += [250, 500]
    live = []
    for rnd in range(2 + r.below(3)):
        for _ in range(cap + r.below(2)):
            v += 1
            k = nextkey % (cap + 3)
            nextkey += 1
            sz = r.pick(SIZES[:4])
            ops.append((r.pick(steps), "insm" if cfg["mem"] is not None else "ins", [k, v, sz]))
            live.append(k)
            for _ in range(r.pick([0, 0, 1, 2, 3, 5, 6])):
                ops.append((0, "get", [k]))
            if cfg["mem"] is not None and r.chance(1, 4):
                # one large value after several small ones: a single store that has to evict two or more residents
                v += 1
                k = nextkey % (cap + 3)
                nextkey += 1
                big = max(s for s in SIZES if s <= cfg["mem"])
                ops.append((r.pick(steps), "insm", [k, v, big]))
                live.append(k)
            if live and r.chance(1, 2):
                k2 = r.pick(live[-(cap + 1):])
                for _ in range(1 + r.below(3)):
                    ops.append((r.pick([0, 0, 1000]), "get", [k2]))
    return ops


def gen_expired_behind(r, cfg):
    """an entry that HAS EXPIRED BUT HAS NOT BEEN LOOKED UP sits behind live entries in the order queue when a store
    overflows: the oldest entry z is used again while fresh (recency policies move it to the back), the younger ones stay
    in front; then z reaches its ttl, the others do not, and new keys arrive"""
    T = cfg["ttl"] * 1000
    cap = cfg["limit"] if (cfg["limit"] is not None and cfg["limit"] < 1000) else 3
    is_async = cfg["fl"] == "a"
    ins = "insm" if cfg["mem"] is not None else "ins"
    sz = SIZES[0]
    gap = 1000 if is_async else r.pick([250, 500])
    if T <= gap:
        gap = T // 2 if not is_async else T
    ops, v = [], 1
    ops.append((0, ins, [0, v, sz]))
    for j in range(1, max(2, cap)):
        v += 1
        ops.append((gap if j == 1 else 0, ins, [j, v, sz]))
    for _ in range(1 + r.below(2)):
        ops.append((0, "get", [0]))                      # z used again while fresh
    if r.chance(1, 2):
        ops.append((0, "get", [1]))
    ops.append((max(0, T - gap), "get", [1]) if r.chance(1, 3) else (max(0, T - gap), ins, [cap + 1, v + 1, sz]))   # z is T old now
    v += 2
    for j in range(2 + r.below(2)):
        ops.append((0, ins, [cap + 2 + j, v + j, sz]))
    ops.append((0, "get", [0]))
    return ops


def gen_lifetime(r, cfg):
    """lifetime probes for the TTL property: every key is stored, looked up at chosen ages below T
    (a hit must not prolong the entry's life), possibly stored again (the new entry's life starts
    at the second store) and finally looked up just before and exactly at the end of its life"""
    T = cfg["ttl"] * 1000
    is_async = cfg["fl"] == "a"
    step = 1000 if is_async else 250
    events = []          # (absolute time, order, name, args)
    v = 0
    nkeys = 1 + r.below(3)
    for k in range(nkeys):
        t0 = r.below(4) * step
        v += 1
        sz = r.pick(SIZES[:3])
        ins = "insm" if cfg["mem"] is not None else "ins"
        events.append((t0, len(events), ins, [k, v, sz]))
        ages = sorted(set(r.below(max(1, T // step)) * step for _ in range(r.below(4))))
        for d in ages:
            events.append((t0 + d, len(events), "get", [k]))
        if r.chance(1, 3) and T > step:
            d2 = (1 + r.below(T // step - 1)) * step
            v += 1
            events.append((t0 + d2, len(events), ins, [k, v, sz]))
            t0 = t0 + d2
            for d in sorted(set(r.below(max(1, T // step)) * step for _ in range(r.below(3)))):
                events.append((t0 + d, len(events), "get", [k]))
        events.append((t0 + T - step, len(events), "get", [k]))
        events.append((t0 + T, len(events), "get", [k]))
        if r.chance(1, 2):
            events.append((t0 + T + step, len(events), "get", [k]))
    events.sort()
    ops, now = [], 0
    for t, _, name, args in events:
        ops.append((t - now, name, args))
        now = t
    return ops


def gen_history(r, cfg, nops, mixed=False, streaks=False):
    cap = cfg["limit"] if cfg["limit"] is not None and cfg["limit"] < 1000 else 3
    alphabet = cap + 2
    ops = []
    vcounter = 0
    is_async = cfg["fl"] == "a"
    ttl = cfg["ttl"]
    if ttl is not None and ttl > 1000:
        ttl = 3            # an extreme ttl: time steps stay small (nothing ever expires)
    for _ in range(nops):
        # time step
        dt = 0
        if ttl is not None:
            x = r.below(10)
            if is_async:
                dt = [0, 0, 0, 0, 0, 1000, 1000, max(1, ttl // 2) * 1000, 2000, ttl * 1000][x]
            else:
                dt = [0, 0, 0, 0, 250, 500, 750, 1000, max(1, ttl // 2) * 1000, ttl * 1000][x]
        elif r.chance(1, 10):
            dt = 1000
        k = r.below(alphabet)
        x = r.below(100)
        if streaks and x < 8 and ops:
            # a hot key: several lookups in a row (popularity matters to LFU/ARC/TLRU)
            for j in range(2 + r.below(5)):
                ops.append((dt if j == 0 else 0, "get", [k]))
            continue
        if x < 45:
            ops.append((dt, "get", [k]))
        elif x < 97 or cfg["fl"] != "g":
            vcounter += 1
            sz = r.pick(SIZES)
            use_mem = cfg["mem"] is not None and not (mixed and r.chance(1, 8))
            if cfg["mem"] is not None and use_mem:
                # keep sizes mostly below M, sometimes above
                if sz > cfg["mem"] and not r.chance(1, 4):
                    sz = r.pick([s for s in SIZES if s <= cfg["mem"]])
            ops.append((dt, "insm" if use_mem else "ins", [k, vcounter, sz]))
        else:
            ops.append((dt, "clear", []))
    return ops


def fmt(x):
    return "-" if x is None else str(x)


def main():
    ap = argparse.ArgumentParser()
    ap.add_argument("--prop", default="ALL")
    ap.add_argument("--seed", type=int, default=1)
    ap.add_argument("--count", type=int, default=200)
    ap.add_argument("--nops", type=int, default=24)
    ap.add_argument("--out", required=True)
    a = ap.parse_args()
    prof = PROFILES.get(a.prop, {})
    r = Rng(a.seed * 1000003 + sum(ord(c) for c in a.prop))
    hist_cfg = {}
    hist_ops = {}
    samples = []
    with open(a.out, "w") as f:
        for i in range(a.count):
            cfg = gen_cfg(r, prof)
            nops = a.nops // 2 + r.below(a.nops)
            if prof.get("extremes") and r.chance(1, 10):
                # every flavour x policy with an entry limit of 3-4 and a short ttl: an expired, not yet purged entry BEHIND
                # live ones when a store overflows
                cfg = dict(fl=r.pick(FLAVOURS), pol=r.pick(POLICIES), limit=r.pick([3, 4]), ttl=r.pick([1, 2]),
                           mem=r.pick([None, None, 100]), fw=None)
                ops = gen_expired_behind(r, cfg)
            elif cfg["ttl"] and (prof.get("scenarios") or prof.get("lifetime") or prof.get("extremes") or a.prop == "C04") \
                    and cfg["ttl"] < 100 and r.chance(1, 6):
                ops = gen_expired_behind(r, cfg)
            elif prof.get("scenarios") and r.chance(1, 2):
                ops = gen_scenario(r, cfg)
            elif prof.get("lifetime") and r.chance(1, 3):
                ops = gen_lifetime(r, cfg)
            else:
                ops = gen_history(r, cfg, nops, mixed=a.prop in ("C16",), streaks=prof.get("streaks", False))
            seed = r.below(1 << 31)
            fwn, fwd = cfg["fw"] if cfg["fw"] else (None, None)
            head = "CASE %s-%d-%d %s %s %s %s %s %s %s %d" % (
                a.prop, a.seed, i, cfg["fl"], cfg["pol"], fmt(cfg["limit"]), fmt(cfg["ttl"]),
                fmt(cfg["mem"]), fmt(fwn), fmt(fwd), seed)
            f.write(head + "\n")
            for dt, name, args in ops:
                f.write("O %d %s %s\n" % (dt, name, " ".join(str(x) for x in args)))
                hist_ops[name] = hist_ops.get(name, 0) + 1
            f.write("END\n")
            key = "%s/%s/limit=%s/ttl=%s/mem=%s" % (cfg["fl"], cfg["pol"], "y" if cfg["limit"] else "n",
                                                     "y" if cfg["ttl"] else "n", "y" if cfg["mem"] else "n")
            hist_cfg[key] = hist_cfg.get(key, 0) + 1
            if i < 2:
                samples.append(dict(case=head, ops=["%d %s %s" % (dt, n, " ".join(map(str, ar))) for dt, n, ar in ops]))
    rt = 0
    if a.prop == "C06":
        # real-time cases on the async engine: the whole-second clock with real sub-second phases
        with open(a.out, "a") as f:
            n_rt = 6 if a.count < 5000 else 18
            for i in range(n_rt):
                T = 1 + (i % 2)
                phase = [150, 500, 850][i % 3]
                pol = r.pick(POLICIES)
                f.write("RTCASE C06-rt-%d-%d a %s %s %d - - - %d\n" % (a.seed, i, pol, r.pick(["-", "2", "3"]), T, r.below(1 << 31)))
                f.write("O %d ins 0 1 28\n" % phase)
                if T == 2 and i % 4 < 2:
                    f.write("O %d get 0\n" % 400)            # age 0.4 s < T-1: must be served
                    f.write("O %d get 0\n" % (T * 1000 - 400 + 250))   # age T + 0.25 s: must be expired
                else:
                    f.write("O %d get 0\n" % (T * 1000 + 250))
                f.write("O 0 get 0\n")
                f.write("END\n")
                rt += 1
    json.dump(dict(cases=a.count + rt, realtime_cases=rt, ops=hist_ops, configs=hist_cfg, samples=samples), sys.stdout)


if __name__ == "__main__":
    main()
