#!/bin/bash
# run_all_seeded.sh [--harvest] [glob] — applies every seeded change in turn and runs its own property's check;
# every line must say VIOLATION (regression of the checks' detection power).  With --harvest the minimised
# failing case of each detection is added to the regression corpus (tools/harvest.py).
cd /verif
PAT="${2:-*}"
for d in seeded/$PAT/; do
  id=$(basename $d); prop=${id%-*}
  printf "%s: " $id
  rm -f build/replay/$prop-*-prop.txt build/replay/$prop-*-panic.txt
  cd /repo && git apply /verif/$d/patch.diff 2>/dev/null || { echo "patch does not apply"; cd /verif; continue; }
  cd /verif
  # the corpus makes detection independent of the sample; before a change is in the corpus a few seeds are tried
  for seed in 1 2 3 4; do
    out=$(./check $prop --seed $seed 2>&1 | grep -E "^(VIOLATION|OK)" | head -1 | cut -c1-150)
    case "$out" in VIOLATION*) break;; esac
  done
  echo "$out"
  if [ "$1" = "--harvest" ]; then python3 tools/harvest.py $id $prop 2>&1 | sed 's/^/    /'; fi
  cd /repo && git checkout -- . && cd /verif
done
git -C /repo status --short | head -3
