#!/bin/bash
# run_all_seeded.sh — applies every seeded change in turn and runs its own property's check;
# every line must say VIOLATION.  (regression of the checks' detection power)
cd /verif
for d in seeded/*/; do
  id=$(basename $d); prop=${id%-*}
  printf "%s: " $id
  tools/run_mutant.sh /verif/$d/patch.diff $prop 2>&1 | grep -E "VIOLATION|OK|apply" | head -1 | cut -c1-150
done
