#!/bin/sh
# builds the Coq development (all proofs), the extraction and the OCaml driver
set -e
cd /verif/coq
mkdir -p ../build/extract
[ -f Makefile ] || coq_makefile -f _CoqProject -o Makefile >/dev/null
timeout 3000 make -j16 >../build/coq_make.log 2>&1 || { tail -30 ../build/coq_make.log; exit 1; }
cd ../build/extract
if [ ! -x driver ] || [ model.ml -nt driver ] || [ /verif/ocaml/driver.ml -nt driver ]; then
  cp /verif/ocaml/driver.ml .
  ocamlfind ocamlopt -O2 -w -a model.mli model.ml driver.ml -o driver 2>&1 | grep -v "^$" || true
  [ -x driver ]
fi
if [ ! -x e2_driver ] || [ model.ml -nt e2_driver ] || [ /verif/ocaml/e2_driver.ml -nt e2_driver ]; then
  cp /verif/ocaml/e2_driver.ml .
  ocamlfind ocamlopt -O2 -w -a model.mli model.ml e2_driver.ml -o e2_driver 2>&1 | grep -v "^$" || true
  [ -x e2_driver ]
fi
