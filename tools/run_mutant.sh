#!/bin/bash
# run_mutant.sh <patch> <prop> [<prop>...] : applies the patch to /repo, runs the checks, reverts.
PATCH="$1"; shift
cd /repo && git apply "$PATCH" || { echo "patch does not apply"; exit 2; }
cd /verif
for p in "$@"; do
  out=$(./check $p 2>&1 | grep -E "^(VIOLATION|OK|KNOWN)" | head -2 | cut -c1-200)
  echo "$p: $out"
done
cd /repo && git checkout -- . && git clean -fdq cachelito-core cachelito-macros cachelito-async-macros cachelito-macro-utils src 2>/dev/null
git -C /repo status --short | head -3
