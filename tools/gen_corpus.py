#!/usr/bin/env python3
"""gen_corpus.py — generates the fixed corpus of #[cache] / #[cache_async] functions used
by the macro-level harness (vh-macro): a systematic block (macro flavour x policy) plus a
seeded sample of the attribute product x signature shapes x return types.

Writes  <outdir>/corpus.rs  (Rust source included by vh-macro)
        <outdir>/corpus_table.txt  (one line per function, read by the generator of
                                    histories and by the OCaml driver)
Deterministic: same output on every run.
"""
import sys

MASK = (1 << 64) - 1


class Rng:
    def __init__(self, seed):
        self.s = seed & MASK

    def next(self):
        self.s = (self.s + 0x9E3779B97F4A7C15) & MASK
        z = self.s
        z = ((z ^ (z >> 30)) * 0xBF58476D1CE4E5B9) & MASK
        z = ((z ^ (z >> 27)) * 0x94D049BB133111EB) & MASK
        return z ^ (z >> 31)

    def below(self, n):
        return self.next() % n

    def pick(self, xs):
        return xs[self.below(len(xs))]

    def chance(self, a, b):
        return self.below(b) < a


POLICIES = ["fifo", "lru", "lfu", "arc", "random", "tlru"]
RET = ["u64", "String", "Result<u64, u64>", "std::result::Result<String, String>", "rt::Slow", "rt::Weighted", "()"]
RET_IS_RESULT = [False, False, True, True, False, False, False]
WEIGHTS = [None, ("0.3", 3, 10), ("1.5", 3, 2), ("3.0", 3, 1), ("1", 1, 1)]
# (attribute text, bytes)
MEMS = [None, ("100", 100), ('"100"', 100), ('"1KB"', 1024), ("64", 64), ('"130"', 130)]


def mk(idx, flavour, policy, limit=None, ttl=None, mem=None, fw=None, ret=0, sig=0, name=None,
       tags=(), events=(), deps=(), cache_if=False, inval_on=False, gates=0, early=False):
    return dict(gates=gates, early=early, idx=idx, flavour=flavour, policy=policy, limit=limit, ttl=ttl, mem=mem, fw=fw, ret=ret, sig=sig,
                name=name, tags=list(tags), events=list(events), deps=list(deps), cache_if=cache_if,
                inval_on=inval_on)


def build():
    fns = []
    r = Rng(20260930)
    # systematic block: flavour x policy, limit 2, plain
    for fl in ["g", "t", "a"]:
        for p in POLICIES:
            fns.append(mk(len(fns), fl, p, limit=2))
    # default policy (no policy attribute), no attributes at all
    for fl in ["g", "t", "a"]:
        fns.append(mk(len(fns), fl, None))
    # invalidation metadata block (C12/C13): overlapping tags/events/deps, sync + async
    layouts = [
        (("t1",), (), ()), (("t1", "t2"), ("e1",), ()), ((), ("e1",), ("d1",)), (("t2",), (), ("d1", "d2")),
        ((), (), ("d2",)), (("t1",), ("e2",), ("d1",)),
    ]
    for i, (tg, ev, dp) in enumerate(layouts):
        fns.append(mk(len(fns), "g", "lru", limit=3, tags=tg, events=ev, deps=dp, name=("cn%d" % len(fns)) if i % 2 else None))
        fns.append(mk(len(fns), "a", "fifo", limit=3, tags=tg, events=ev, deps=dp, name=("cn%d" % len(fns)) if i % 2 == 0 else None))
    fns.append(mk(len(fns), "t", "lru", limit=3, tags=("t1",), events=("e1",), deps=("d1",)))
    # chains: the name of one cache is a label of another (invalidation must not cascade)
    fns.append(mk(len(fns), "g", "fifo", limit=3, name="chainA", deps=("d1",), tags=("t2",)))
    fns.append(mk(len(fns), "a", "lru", limit=3, name="chainB", deps=("chainA",), events=("chainA",)))
    fns.append(mk(len(fns), "g", "lru", limit=3, name="chainC", deps=("chainB",), tags=("chainA", "chainB")))
    # a cache that names itself among its labels (e.g. a recursive memoised function)
    fns.append(mk(len(fns), "g", "lru", limit=3, name="chainS", deps=("chainS", "d2"), tags=("chainS",)))
    n = len(fns)
    fns.append(mk(n, "a", "fifo", limit=3, deps=("f%d" % n,), events=("f%d" % n,)))
    # predicates and Result
    for fl in ["g", "t", "a"]:
        fns.append(mk(len(fns), fl, "lru", limit=3, ret=2))
        fns.append(mk(len(fns), fl, "fifo", ret=3, mem=MEMS[3]))
        fns.append(mk(len(fns), fl, "lru", limit=3, cache_if=True))
        fns.append(mk(len(fns), fl, "lfu", limit=2, cache_if=True, ret=2))
        fns.append(mk(len(fns), fl, "fifo", cache_if=True, ret=3, mem=MEMS[1]))
        fns.append(mk(len(fns), fl, "lru", limit=3, inval_on=True))
        fns.append(mk(len(fns), fl, "fifo", inval_on=True, ret=1, mem=MEMS[2]))
        fns.append(mk(len(fns), fl, "arc", limit=2, inval_on=True, cache_if=True, ret=2))
    # signature shapes
    for fl in ["g", "t", "a"]:
        for sig in [1, 2, 3, 4]:
            fns.append(mk(len(fns), fl, "lru", limit=2, sig=sig))
    # seeded sample of the product
    while len(fns) < 137:
        fl = r.pick(["g", "g", "t", "a", "a"])
        pol = r.pick(POLICIES)
        limit = r.pick([None, 1, 2, 3, 4])
        ttl = r.pick([None, None, 1, 2, 3])
        mem = r.pick(MEMS + [None, None])
        fw = r.pick(WEIGHTS) if pol == "tlru" else None
        ret = r.pick([0, 0, 1, 1, 2, 3])
        sig = r.pick([0, 0, 0, 1, 2, 4])
        name = ("cn%d" % len(fns)) if r.chance(1, 3) else None
        tags = [t for t in ["t1", "t2"] if r.chance(1, 4)]
        events = [t for t in ["e1", "e2"] if r.chance(1, 5)]
        deps = [t for t in ["d1", "d2"] if r.chance(1, 5)]
        fns.append(mk(len(fns), fl, pol, limit=limit, ttl=ttl, mem=mem, fw=fw, ret=ret, sig=sig, name=name,
                      tags=tags, events=events, deps=deps, cache_if=r.chance(1, 5), inval_on=r.chance(1, 5)))
    # async functions whose bodies have 1-3 await points (suspension / cancellation, C20); appended
    # last so that the indices of the functions above stay stable
    for g, (pol, limit, ttl, mem, ret, ci, io) in enumerate([
            ("lru", 2, None, None, 0, False, False), ("fifo", 2, None, None, 0, False, False),
            ("lfu", 2, None, None, 0, False, False), ("arc", 3, 2, None, 0, False, False),
            ("lru", None, None, MEMS[4], 1, False, False), ("tlru", 2, 3, None, 2, False, False),
            ("fifo", 3, None, None, 2, True, False), ("lru", 2, None, None, 0, False, True),
            ("random", 2, None, None, 0, False, False)]):
        fns.append(mk(len(fns), "a", pol, limit=limit, ttl=ttl, mem=mem, ret=ret, cache_if=ci, inval_on=io,
                      gates=1 + g % 3, tags=("t1",) if g % 2 == 0 else ()))
    # bodies that leave through an explicit `return` for odd arguments (C03)
    for fl in ["g", "t", "a"]:
        fns.append(mk(len(fns), fl, "lru", early=True))
    # a destructuring pattern as parameter: `(p, q): (u32, u32), c: u32` (C02)
    for fl in ["g", "a"]:
        fns.append(mk(len(fns), fl, "fifo", limit=4, sig=5))
    # values whose Clone can be held by the harness: lookups that overlap in real time (C03/C14/C18)
    for fl in ["a", "g"]:
        fns.append(mk(len(fns), fl, "lru", ret=4))
    # a user type with its own MemoryEstimator under max_memory (C05: "what its MemoryEstimator reports")
    for fl in ["g", "a", "t"]:
        fns.append(mk(len(fns), fl, "lru", mem=MEMS[5], ret=5))
    # ---- appended in round 2 of the seeded changes (indices above are referenced by corpus/sched.txt) ----
    # adjacent integer arguments whose renderings read alike without the separator: (1, 2j) / (12, j)
    for fl in ["g", "a"]:
        fns.append(mk(len(fns), fl, "lru", sig=6))
    # a unit-variant receiver followed by a unit-variant argument: A + BC / AB + C
    for fl in ["g", "a"]:
        fns.append(mk(len(fns), fl, "fifo", sig=7))
    # parameter names that a generated local could capture (key, result, part, cache)
    for fl in ["g", "t", "a"]:
        fns.append(mk(len(fns), fl, "lru", sig=8))
    # Result functions whose Ok leaves the body through an explicit `return` (C09)
    for fl in ["g", "t", "a"]:
        fns.append(mk(len(fns), fl, "lru", early=True, ret=2))
    # attribute texts that mention the OTHER scope: a name / tag / event containing "thread" on global and
    # async functions, a name containing "global" on a thread-scope function (C14)
    fns.append(mk(len(fns), "g", "lru", limit=3, name="worker_thread_lookup"))
    fns.append(mk(len(fns), "g", "fifo", limit=3, tags=("thread_pool",), events=("thread_exit",)))
    fns.append(mk(len(fns), "a", "lru", limit=3, name="thread_local_async"))
    fns.append(mk(len(fns), "t", "lru", limit=3, name="global_counter"))
    # cache_if functions whose results leave the body through an explicit `return` (C10), plain and Result
    for fl in ["g", "t"]:
        fns.append(mk(len(fns), fl, "lru", early=True, cache_if=True))
        fns.append(mk(len(fns), fl, "fifo", limit=3, early=True, cache_if=True, ret=2))
    # Result functions with BOTH an entry limit and a ttl (an expired entry whose refresh fails stores nothing)
    fns.append(mk(len(fns), "g", "fifo", limit=2, ttl=2, ret=2))
    fns.append(mk(len(fns), "g", "lfu", limit=3, ttl=1, ret=3))
    fns.append(mk(len(fns), "t", "lru", limit=2, ttl=2, ret=2))
    fns.append(mk(len(fns), "a", "fifo", limit=2, ttl=2, ret=2))
    # two adjacent string parameters whose values contain the separator: ("k|m", "n") / ("k", "m|n") (C01/C02)
    for fl in ["g", "t", "a"]:
        fns.append(mk(len(fns), fl, "lru", sig=9))
    # user-estimator values in caches with a tag: a thread can be parked inside a store (in the estimator, under the
    # queue lock) while another thread invalidates by tag (C12, C17, C18)
    fns.append(mk(len(fns), "a", "lru", mem=MEMS[5], ret=5, tags=("t1",)))
    fns.append(mk(len(fns), "g", "lru", mem=MEMS[5], ret=5, tags=("t1",)))
    # many caches under ONE tag and ONE event (more than any batch size a registry might use)
    for i in range(18):
        fns.append(mk(len(fns), "g" if i % 2 == 0 else "a", "fifo", limit=2, tags=("mass",), events=("massev",)))
    # plain caches (no limit) whose parameter is a destructuring pattern (C03: once per distinct tuple)
    for fl in ["g", "a"]:
        fns.append(mk(len(fns), fl, "fifo", sig=5))
    # nested collections as arguments: [[j, 2], [3]] / [[j], [2, 3]] differ only in the grouping
    for fl in ["g", "t", "a"]:
        fns.append(mk(len(fns), fl, "lru", sig=10))
    # recency-ordered caches large enough for an invalidation that removes more entries than it leaves (C13)
    fns.append(mk(len(fns), "g", "lru", limit=5))
    fns.append(mk(len(fns), "g", "arc", limit=5))
    fns.append(mk(len(fns), "g", "tlru", limit=6))
    fns.append(mk(len(fns), "a", "lru", limit=5))
    # ---- appended in round 5 of the seeded changes ----
    # nested options: (None, j) / (Some(None), j) / (Some(Some(j)), j) are three different argument lists (C01/C02)
    for fl in ["g", "t", "a"]:
        fns.append(mk(len(fns), fl, "lru", sig=11))
    # the two zeros of a float parameter are different arguments: (0.0, j) / (-0.0, j) (C01/C02)
    for fl in ["g", "t", "a"]:
        fns.append(mk(len(fns), fl, "fifo", sig=12))
    # Result functions with invalidate_on and NO cache_if: an Ok that refreshes a stale entry replaces it (C09)
    fns.append(mk(len(fns), "g", "fifo", limit=3, ret=2, inval_on=True))
    fns.append(mk(len(fns), "g", "lru", ret=3, inval_on=True))
    fns.append(mk(len(fns), "g", "lfu", limit=2, ttl=2, ret=2, inval_on=True))
    fns.append(mk(len(fns), "t", "lru", limit=3, ret=2, inval_on=True))
    fns.append(mk(len(fns), "a", "fifo", limit=3, ret=3, inval_on=True))
    # String results under max_memory in every flavour, Result and cache_if: values that fill the budget exactly (C09/C10)
    for fl in ["g", "t", "a"]:
        fns.append(mk(len(fns), fl, "fifo", mem=MEMS[1], ret=3))
        fns.append(mk(len(fns), fl, "lru", mem=MEMS[5], ret=1, cache_if=True))
    # TLRU with a frequency_weight and nothing but an entry limit, in every flavour: the weight alone decides victims (C08/C19)
    fns.append(mk(len(fns), "a", "tlru", limit=3, fw=WEIGHTS[3]))
    fns.append(mk(len(fns), "a", "tlru", limit=4, fw=WEIGHTS[1]))
    fns.append(mk(len(fns), "g", "tlru", limit=3, fw=WEIGHTS[2]))
    fns.append(mk(len(fns), "t", "tlru", limit=3, fw=WEIGHTS[3]))
    # ---- appended in round 6 of the seeded changes ----
    # binary buffers that are not valid UTF-8 and differ only inside the invalid sequence (C01/C02)
    for fl in ["g", "a"]:
        fns.append(mk(len(fns), fl, "lru", sig=13))
    # a receiver built afresh for every call (two receiver VALUES at one address in turn) (C02)
    for fl in ["g", "a"]:
        fns.append(mk(len(fns), fl, "fifo", sig=14))
    # async cache_if functions with await points: executions of one key that overlap (C10)
    fns.append(mk(len(fns), "a", "lru", cache_if=True, gates=2))
    fns.append(mk(len(fns), "a", "fifo", limit=3, cache_if=True, ret=1, gates=1))
    fns.append(mk(len(fns), "a", "lru", mem=MEMS[5], cache_if=True, ret=1, gates=1))
    # functions WITHOUT a return type, cached for their effect (the body runs once per distinct arguments) (C03)
    for fl in ["g", "t", "a"]:
        fns.append(mk(len(fns), fl, "lru", ret=6))
    fns.append(mk(len(fns), "a", "fifo", limit=3, ret=6))
    # one label string declared in TWO kinds by one cache, and one string that is an event of one cache and a dependency
    # of another (C12: every declared kind is registered; C13: kinds are separate namespaces)
    fns.append(mk(len(fns), "g", "fifo", limit=3, tags=("dup1",), events=("dup1",)))
    fns.append(mk(len(fns), "a", "lru", limit=3, events=("dup2",), deps=("dup2",)))
    fns.append(mk(len(fns), "g", "lru", tags=("dup3",), deps=("dup3",)))
    fns.append(mk(len(fns), "g", "fifo", limit=3, events=("xk1",)))
    fns.append(mk(len(fns), "a", "fifo", limit=3, deps=("xk1",)))
    fns.append(mk(len(fns), "g", "lru", limit=3, deps=("xk2",), name="named_dep_xk2"))
    fns.append(mk(len(fns), "a", "lru", limit=3, events=("xk2",)))
    # cache names that differ only in letter case are different names (C15)
    fns.append(mk(len(fns), "g", "lru", limit=3, name="StatsTwin"))
    fns.append(mk(len(fns), "a", "lru", limit=3, name="statstwin"))
    fns.append(mk(len(fns), "g", "fifo", limit=3, name="STATSTWIN"))
    # async invalidate_on functions whose result may not be cached, with await points (C20: a resumed call that stores
    # nothing leaves the entry another call stored meanwhile alone)
    fns.append(mk(len(fns), "a", "lru", limit=3, ret=2, inval_on=True, gates=1))
    fns.append(mk(len(fns), "a", "fifo", limit=3, inval_on=True, cache_if=True, gates=1))
    return fns


def attr_list(f):
    parts = []
    if f["limit"] is not None:
        parts.append("limit = %d" % f["limit"])
    if f["policy"] is not None:
        parts.append('policy = "%s"' % f["policy"])
    if f["ttl"] is not None:
        parts.append("ttl = %d" % f["ttl"])
    if f["flavour"] == "t":
        parts.append('scope = "thread"')
    elif f["flavour"] == "g" and f["idx"] % 3 == 0:
        parts.append('scope = "global"')
    if f["mem"] is not None:
        parts.append("max_memory = %s" % f["mem"][0])
    if f["fw"] is not None:
        parts.append("frequency_weight = %s" % f["fw"][0])
    if f["name"] is not None:
        parts.append('name = "%s"' % f["name"])
    for kind in ["tags", "events", "dependencies"]:
        vals = f["deps" if kind == "dependencies" else kind]
        if vals:
            parts.append("%s = [%s]" % (kind, ", ".join('"%s"' % v for v in vals)))
    if f["inval_on"]:
        parts.append("invalidate_on = inv%d" % f["idx"])
    if f["cache_if"]:
        parts.append("cache_if = cif%d" % f["idx"])
    # vary the order of the attributes deterministically
    k = f["idx"] % max(1, len(parts))
    return parts[k:] + parts[:k]


SIG_PARAMS = {
    0: "k: u32",
    1: "a: u32, b: &str",
    2: "&self, k: u32",
    3: "",
    4: "a: u32, b: bool, c: char, d: Option<u32>",
    5: "(p, q): (u32, u32), c: u32",
    6: "a: u32, b: u32",
    7: "&self, r: Rest2, k: u32",
    8: "key: u32, result: u32, part: u32, cache: u32",
    9: "a: &str, b: String, k: u32",
    10: "rows: Vec<Vec<u32>>",
    11: "d: Option<Option<u32>>, k: u32",
    12: "z: f64, k: u32",
    13: "bytes: Vec<u8>, k: u32",
    14: "&self, k: u32",
}
SIG_X = {0: "k", 1: "a", 2: "k", 3: "0u32", 4: "a", 5: "c", 6: "b", 7: "k", 8: "part", 9: "k", 10: "rows[0][0]", 11: "k", 12: "k", 13: "k", 14: "k"}
# sig 6: x = 2j -> (1, 20 + j), x = 2j + 1 -> (12, j): "1" ++ "2j" = "12" ++ "j"
SIG_ARGS = {0: "x", 1: "x, &format!(\"s{}\", x)", 2: "x / 2", 3: "", 4: "x, true, 'c', Some(x)", 5: "(x % 2, 7), x / 2",
            6: "if x % 2 == 0 { 1 } else { 12 }, if x % 2 == 0 { 20 + x / 2 } else { x / 2 }",
            7: "if x % 2 == 0 { Rest2::BC } else { Rest2::C }, x / 2",
            8: "1, 2, x, 3",
            9: "&strs9(x).0, strs9(x).1, x / 2",
            10: "rows10(x)",
            11: "opt11(x), x / 3",
            12: "zero12(x), x / 2",
            13: "bytes13(x), x / 2",
            14: "x / 2"}
SIG_KEY = {0: 'format!("{:?}", x)',
           1: 'format!("{:?}|{:?}", x, format!("s{}", x).as_str())',
           2: 'format!("{:?}|{:?}", recv(x), x / 2)',
           3: "String::new()",
           4: 'format!("{:?}|{:?}|{:?}|{:?}", x, true, \'c\', Some(x))',
           5: 'format!("{:?}|{:?}", (x % 2, 7u32), x / 2)',
           6: 'format!("{:?}|{:?}", if x % 2 == 0 { 1u32 } else { 12 }, if x % 2 == 0 { 20 + x / 2 } else { x / 2 })',
           7: 'format!("{:?}|{:?}|{:?}", half(x), if x % 2 == 0 { Rest2::BC } else { Rest2::C }, x / 2)',
           8: 'format!("{:?}|{:?}|{:?}|{:?}", 1u32, 2u32, x, 3u32)',
           9: 'format!("{:?}|{:?}|{:?}", strs9(x).0.as_str(), strs9(x).1, x / 2)',
           10: 'format!("{:?}", rows10(x))',
           11: 'format!("{:?}|{:?}", opt11(x), x / 3)',
           12: 'format!("{:?}|{:?}", zero12(x), x / 2)',
           13: 'format!("{:?}|{:?}", bytes13(x), x / 2)',
           14: 'format!("{:?}|{:?}", Recv { id: 20 + x % 2 }, x / 2)'}
BODY = ["body_u64", "body_string", "body_res_u64", "body_res_string", "body_slow", "body_weighted", "body_unit"]


def emit(fns, out):
    o = []
    o.append("// @generated by tools/gen_corpus.py — do not edit")
    o.append("#![allow(dead_code, unused_variables, clippy::all)]")
    o.append("use crate::rt;")
    o.append("#[derive(Debug, Clone, PartialEq)]")
    o.append("pub struct Recv { pub id: u32 }")
    o.append("impl cachelito_core::DefaultCacheableKey for Recv {}")
    o.append("pub static RECV: Recv = Recv { id: 7 };")
    o.append("pub static RECV2: Recv = Recv { id: 8 };")
    o.append("pub fn recv(x: u32) -> &'static Recv { if x % 2 == 0 { &RECV } else { &RECV2 } }")
    o.append("#[derive(Debug, Clone, PartialEq)]")
    o.append("pub enum Half { A, AB }")
    o.append("#[derive(Debug, Clone, PartialEq)]")
    o.append("pub enum Rest2 { BC, C }")
    o.append("impl cachelito_core::DefaultCacheableKey for Half {}")
    o.append("impl cachelito_core::DefaultCacheableKey for Rest2 {}")
    o.append("pub static HALF_A: Half = Half::A;")
    o.append("pub static HALF_AB: Half = Half::AB;")
    o.append("pub fn half(x: u32) -> &'static Half { if x % 2 == 0 { &HALF_A } else { &HALF_AB } }")
    o.append("/// x = 2j -> [[j, 2], [3]], x = 2j + 1 -> [[j], [2, 3]]: the same flattened contents, another grouping")
    o.append("pub fn rows10(x: u32) -> Vec<Vec<u32>> { if x % 2 == 0 { vec![vec![x / 2, 2], vec![3]] } else { vec![vec![x / 2], vec![2, 3]] } }")
    o.append("/// x = 2j -> (\"kj|m\", \"n\"), x = 2j + 1 -> (\"kj\", \"m|n\"): alike once the quotes are gone")
    o.append("pub fn strs9(x: u32) -> (String, String) { if x % 2 == 0 { (format!(\"k{}|m\", x / 2), \"n\".to_string()) } else { (format!(\"k{}\", x / 2), \"m|n\".to_string()) } }")
    o.append("/// x = 3j -> None, 3j + 1 -> Some(None), 3j + 2 -> Some(Some(j))")
    o.append("pub fn opt11(x: u32) -> Option<Option<u32>> { match x % 3 { 0 => None, 1 => Some(None), _ => Some(Some(x / 3)) } }")
    o.append("/// x = 2j -> [104, 105, 255], x = 2j + 1 -> [104, 105, 254]: not UTF-8, alike after a lossy decoding")
    o.append("pub fn bytes13(x: u32) -> Vec<u8> { if x % 2 == 0 { vec![104, 105, 255] } else { vec![104, 105, 254] } }")
    o.append("/// x = 2j -> 0.0, x = 2j + 1 -> -0.0")
    o.append("pub fn zero12(x: u32) -> f64 { if x % 2 == 0 { 0.0 } else { -0.0 } }")
    for f in fns:
        i = f["idx"]
        ret = RET[f["ret"]]
        if f["inval_on"]:
            o.append("fn inv%d(key: &String, v: &%s) -> bool { rt::inv(%d, key, rt::enc(v)) }" % (i, ret, i))
        if f["cache_if"]:
            o.append("fn cif%d(key: &String, v: &%s) -> bool { rt::cif(%d, key, rt::enc(v)) }" % (i, ret, i))
        attrs = ", ".join(attr_list(f))
        is_async = f["flavour"] == "a"
        mac = "cachelito_async::cache_async" if is_async else "cachelito::cache"
        head = "#[%s%s]" % (mac, ("(%s)" % attrs) if attrs else "")
        body = "rt::%s(%d, %s)" % (BODY[f["ret"]], i, SIG_X[f["sig"]])
        if f["gates"]:
            body = "".join("rt::gate().await; " for _ in range(f["gates"])) + body
        if f["early"]:
            body = "if %s %% 2 == 1 { return %s; } %s" % (SIG_X[f["sig"]], body, body)
        fn = "pub %sfn f%d(%s) -> %s { %s }" % ("async " if is_async else "", i, SIG_PARAMS[f["sig"]], ret, body)
        if f["ret"] == 6:
            # no return type at all (`ReturnType::Default`), the way such a function is written
            fn = "pub %sfn f%d(%s) { %s; }" % ("async " if is_async else "", i, SIG_PARAMS[f["sig"]], body)
        if f["sig"] in (2, 14):
            o.append("impl Recv {\n    %s\n    %s\n}" % (head, fn))
        elif f["sig"] == 7:
            o.append("impl Half {\n    %s\n    %s\n}" % (head, fn))
        else:
            o.append(head)
            o.append(fn)
    # dispatch
    o.append("pub fn dispatch(idx: usize, x: u32) -> rt::Ret {")
    o.append("    match idx {")
    for f in fns:
        i = f["idx"]
        args = SIG_ARGS[f["sig"]]
        callee = ("recv(x).f%d(%s)" if f["sig"] == 2 else "half(x).f%d(%s)" if f["sig"] == 7
                  else "Recv { id: 20 + x %% 2 }.f%d(%s)" if f["sig"] == 14 else "f%d(%s)") % (i, args)
        if f["flavour"] == "a":
            callee = "rt::block_on(%s)" % callee
        o.append("        %d => rt::Ret::from_val(&%s)," % (i, callee))
    o.append("        _ => panic!(\"no such function\"),")
    o.append("    }")
    o.append("}")
    o.append("pub fn start_async(idx: usize, x: u32) -> Option<std::pin::Pin<Box<dyn std::future::Future<Output = rt::Ret>>>> {")
    o.append("    match idx {")
    for f in fns:
        if f["flavour"] == "a" and f["gates"]:
            o.append("        %d => Some(Box::pin(async move { rt::Ret::from_val(&f%d(x).await) }))," % (f["idx"], f["idx"]))
    o.append("        _ => None,")
    o.append("    }")
    o.append("}")
    o.append("pub fn expected_key(idx: usize, x: u32) -> String {")
    o.append("    match idx {")
    for f in fns:
        i = f["idx"]
        e = SIG_KEY[f["sig"]]
        o.append("        %d => %s," % (i, e))
    o.append("        _ => panic!(\"no such function\"),")
    o.append("    }")
    o.append("}")
    o.append("pub const N_FUNCS: usize = %d;" % len(fns))
    o.append("pub fn probe_name(idx: usize) -> &'static str {")
    o.append("    match idx {")
    for f in fns:
        i = f["idx"]
        pn = ("__CACHE_F%d" if f["flavour"] == "a" else "GLOBAL_OR_THREAD_CACHE_F%d") % i
        o.append('        %d => "%s",' % (i, pn))
    o.append("        _ => panic!(\"no such function\"),")
    o.append("    }")
    o.append("}")
    o.append("pub fn cache_name(idx: usize) -> &'static str {")
    o.append("    match idx {")
    for f in fns:
        o.append('        %d => "%s",' % (f["idx"], f["name"] or ("f%d" % f["idx"])))
    o.append("        _ => panic!(\"no such function\"),")
    o.append("    }")
    o.append("}")
    o.append("pub fn flavour(idx: usize) -> char {")
    o.append("    match idx {")
    for f in fns:
        o.append("        %d => '%s'," % (f["idx"], f["flavour"]))
    o.append("        _ => panic!(\"no such function\"),")
    o.append("    }")
    o.append("}")
    open(out + "/corpus.rs", "w").write("\n".join(o) + "\n")
    with open(out + "/corpus_table.txt", "w") as t:
        for f in fns:
            fw = f["fw"]
            pol = f["policy"] or ("fifo")   # both macros default to FIFO
            t.write("FN %d %s %s %s %s %s %s %s %s %d %d %d %d %s %s %s %d\n" % (
                f["idx"], f["name"] or ("f%d" % f["idx"]), f["flavour"], pol,
                f["limit"] if f["limit"] is not None else "-",
                f["ttl"] if f["ttl"] is not None else "-",
                f["mem"][1] if f["mem"] is not None else "-",
                fw[1] if fw else "-", fw[2] if fw else "-",
                1 if RET_IS_RESULT[f["ret"]] else 0, 1 if f["cache_if"] else 0, 1 if f["inval_on"] else 0,
                f["ret"] * 100 + f["sig"],
                ",".join(f["tags"]) or "-", ",".join(f["events"]) or "-", ",".join(f["deps"]) or "-", f["gates"]))


if __name__ == "__main__":
    out = sys.argv[1]
    emit(build(), out)
