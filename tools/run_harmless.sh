#!/bin/bash
# run_harmless.sh <patch> [<prop>...] : applies a property-preserving change to /repo, runs the
# checks (all 20 by default) and reverts.  Every line must say OK: an alarm here is a false alarm.
PATCH="$(readlink -f "$1")"; shift
PROPS="$@"; [ -z "$PROPS" ] && PROPS="C01 C02 C03 C04 C05 C06 C07 C08 C09 C10 C11 C12 C13 C14 C15 C16 C17 C18 C19 C20"
cd /repo && git apply "$PATCH" || { echo "patch does not apply"; exit 2; }
cd /verif
for p in $PROPS; do
  out=$(./check $p 2>&1 | grep -E "^(VIOLATION|OK|KNOWN)" | head -2 | cut -c1-220)
  echo "$(basename $PATCH) $p: $out"
done
cd /repo && git checkout -- . && git clean -fdq cachelito-core cachelito-macros cachelito-async-macros cachelito-macro-utils src 2>/dev/null
git -C /repo status --short | head -3
