#!/bin/bash
# par_run.sh <N> <list-file> <out-log> : runs "tools/run_harmless.sh <diff>" (or run_mutant) lines of <list-file> in a PRIVATE
# copy of /repo and /verif bind-mounted over the real paths inside a mount namespace, so that several
# instances can run side by side without touching the real trees.  Used only for the false-alarm and
# detection regressions, never by the registered checks.
N="$1"; LIST="$2"; LOG="$3"
P=/tmp/par/$N
rm -rf $P; mkdir -p $P
cp -a /verif $P/verif
git clone -q /repo $P/repo
unshare -m bash -c "mount --bind $P/repo /repo && mount --bind $P/verif /verif && cd /verif && while read -r line; do eval \"\$line\"; done < $LIST" > "$LOG" 2>&1
rm -rf $P
