#!/usr/bin/env python3
"""save_seeded.py — copies confirmed seeded changes from /tmp/mut/<id>/out into /verif/seeded/<id>-<v>/"""
import json, os, shutil, sys
META = {
 ("C01","A"): dict(needs="sync #[cache] on a method with exactly one non-receiver parameter, called on two receivers with the same argument", demo_dest="tests/", detected_by=["C01 (oracle pure: wrong value returned)", "C02 (real key != model key)"]),
 ("C01","B"): dict(needs="async cache with max_memory; an existing key re-stored (invalidate_on refresh) with a value that alone exceeds max_memory", demo_dest="cachelito-async/tests/", detected_by=["C01 (c01 predicate: replaced value served)", "C05"]),
 ("C04","A"): dict(needs="async cache exactly full; re-store of a key that is already cached", demo_dest="cachelito-async/tests/", detected_by=["C04 (c04 predicate: non-overflowing store evicted)"]),
 ("C04","B"): dict(needs="sync global cache; one invalidate_with whose predicate matches two or more keys, then stores up to the limit", demo_dest="tests/", detected_by=["C04 (macro oracle limit)", "C13 (oracle frame)"]),
 ("C05","A"): dict(needs="thread-local cache with max_memory; an overflowing store whose residue after k evictions is within 24*k bytes of the limit", demo_dest="tests/", detected_by=["C05 (c05 predicate: total > max_memory)"]),
 ("C05","B"): dict(needs="async cache with max_memory; refresh of a cached key with a larger value that no longer fits beside the others", demo_dest="cachelito-async/tests/", detected_by=["C05 (c05 predicate)", "C04 (correspondence)"]),
 ("C06","A"): dict(needs="sync global cache with ttl and limit; a lookup that finds an expired entry and is NOT followed by a store of that key, then one more store", demo_dest="tests/", detected_by=["C06 (c06 predicate: expired key left in the queue)", "C04"]),
 ("C06","B"): dict(needs="async cache; lookup at whole-second age exactly ttl with a non-zero sub-second phase of the store", demo_dest="cachelito-async/tests/", detected_by=["C06 (real-time cases RTCASE: entry of age >= ttl served)"]),
 ("C07","A"): dict(needs="sync global cache, limit, no max_memory; re-store of a cached key that is not the youngest, then an overflow", demo_dest="tests/", detected_by=["C07 (c07 predicate)"]),
 ("C07","B"): dict(needs="async cache with >= 3 entries; invalidate_with removing a key that is not one of the last two of the queue, then overflow", demo_dest="cachelito-async/tests/", detected_by=["C07 (macro oracle order)", "C13 (oracle frame)"]),
 ("C08","A"): dict(needs="async TLRU with ttl; a time step between stores, hit counts such that the lifetime factor decides the victim", demo_dest="cachelito-async/tests/", detected_by=["C08 (c08 predicate; found by the scenario generator)"]),
 ("C08","B"): dict(needs="sync global LFU/ARC/TLRU with limit >= 2, no max_memory; hits made while the cache is still filling", demo_dest="tests/", detected_by=["C08 (c08 predicate + freq correspondence)"]),
 ("C09","A"): dict(needs="sync Result function with max_memory; an Err followed by the same arguments", demo_dest="tests/", detected_by=["C09 (oracle err)"]),
 ("C09","B"): dict(needs="async function whose return type is spelled std::result::Result<..>", demo_dest="cachelito-async/tests/", detected_by=["C09 (oracle err)"]),
 ("C10","A"): dict(needs="sync function with both invalidate_on and cache_if; stale hit followed by a rejected result", demo_dest="tests/", detected_by=["C10 (oracle cif)"]),
 ("C10","B"): dict(needs="async Result function with cache_if; an Err execution", demo_dest="cachelito-async/tests/", detected_by=["C10 (oracle cif)"]),
 ("C11","A"): dict(needs="sync global FIFO with max_memory and invalidate_on; stale oldest entry refreshed with a larger value", demo_dest="tests/", detected_by=["C11 (oracle inv)", "C07"]),
 ("C11","B"): dict(needs="async function with invalidate_on whose verdict changes between calls", demo_dest="cachelito-async/tests/", detected_by=["C11 (oracle inv)"]),
 ("C12","A"): dict(needs="the same tag/event/dependency invalidated a second time after the caches were refilled", demo_dest="tests/", detected_by=["C12 (oracle tags)"]),
 ("C12","B"): dict(needs="a cache that lists its own name among its dependencies", demo_dest="tests/", detected_by=["C12 (oracle tags; corpus functions chainS / self-named)"]),
 ("C13","A"): dict(needs="sync global cache; predicate matching >= 2 keys with a non-matching key behind the first match", demo_dest="tests/", detected_by=["C13 (oracle frame)"]),
 ("C13","B"): dict(needs="a chain of caches in which the name of one is a dependency label of another", demo_dest="tests/", detected_by=["C13 (oracle frame; chain scenarios)", "C12"]),
 ("C15","A"): dict(needs="sync global LFU/ARC/TLRU with ttl; a lookup that finds an expired entry", demo_dest="tests/", detected_by=["C15 (c15 predicate)"]),
 ("C15","B"): dict(needs="async function with a name attribute; statistics looked up by that name", demo_dest="cachelito-async/tests/", detected_by=["C15 (oracle stats)"]),
 ("C02","A"): dict(needs="sync function with two adjacent String/&str parameters whose contents contain the sequence \"|\" (quote, bar, quote)", demo_dest="tests/", detected_by=["C02 (real key != model key: correspondence; collision only for the exact adversarial pair)"]),
 ("C02","B"): dict(needs="async function with a destructuring pattern as parameter; two calls differing only there", demo_dest="cachelito-async/tests/", detected_by=["C02 (macro part, oracle pure; corpus functions with pattern parameters)"]),
 ("C03","A"): dict(needs="async cache; two lookups of a stored key overlapping in real time on the same DashMap shard", demo_dest="cachelito-async/tests/", detected_by=["C03 / C14 (sched part, overlapping lookups with held clones: MISS)"]),
 ("C03","B"): dict(needs="sync function whose body leaves through an explicit return for some arguments", demo_dest="tests/", detected_by=["C03 (oracle once; corpus functions with early return)"]),
 ("C14","A"): dict(needs="scope = thread together with tags/events/dependencies; two threads", demo_dest="tests/", detected_by=["C14 (oracle iso)"]),
 ("C14","B"): dict(needs="same change as C03-A (spurious miss under shard contention)", demo_dest="cachelito-async/tests/", detected_by=["C14 / C03 (sched part: MISS)"]),
 ("C16","A"): dict(needs="thread scope with max_memory; a value that alone exceeds max_memory", demo_dest="tests/", detected_by=["C16 (panic in core and macro parts)"]),
 ("C16","B"): dict(needs="sync TLRU with ttl; an entry older than ttl still stored when an overflow happens", demo_dest="tests/", detected_by=["C16 (panic)"]),
 ("C17","A"): dict(needs="sync global cache with ttl; lookup of an expired key while another thread is inside an evicting store", demo_dest="tests/", detected_by=["C17 (lock trace not accepted + real deadlock schedule found)"]),
 ("C17","B"): dict(needs="invalidate_all_with over >= 2 caches racing the first call (registration) of another cached function", demo_dest="tests/", detected_by=["C17 (re-acquisition seen in the trace + real deadlock schedule with a first call)"]),
 ("C18","A"): dict(needs="async cache with limit; invalidate_with concurrent with a call for a key already removed from the store but not yet from the queue", demo_dest="cachelito-async/tests/", detected_by=["C18 (sched part: UNTRACKED / LIMIT)"]),
 ("C18","B"): dict(needs="sync global cache with tags and limit; a call between the two steps of the group invalidation", demo_dest="tests/", detected_by=["C18 (sched part: UNTRACKED)", "C17 (trace not accepted)"]),
 ("C19","A"): dict(needs="async Result function with cache_if accepting an Err", demo_dest="cachelito-async/tests/", detected_by=["C19 / C10 (oracle cif)"]),
 ("C19","B"): dict(needs="sync policy = \"tlru\" with hits before an overflow", demo_dest="tests/", detected_by=["C19 (attrs correspondence: policy field; macro correspondence)"]),
 ("C20","A"): dict(needs="async function with invalidate_on; call suspended or dropped after a stale verdict", demo_dest="cachelito-async/tests/", detected_by=["C20 (oracle c20: lookup removed an entry)"]),
 ("C20","B"): dict(needs="async cache with ttl; call suspended while real time passes, then resumed", demo_dest="cachelito-async/tests/", detected_by=["C20 (oracle c20: entry born before the resume; needs the real-sleep events)"]),
}
# round 2 (variants C, D = the sub-agent's patchA, patchB in /tmp/mut/<id>r2/out)
META2 = {
 ("C04","C"): dict(needs="sync global cache with limit AND max_memory; a cached key stored again (stale refresh) with a value that alone exceeds max_memory, then a new key", demo_dest="tests/", detected_by=["C04 (c04 predicate: a store that does not overflow evicts)"]),
 ("C04","D"): dict(needs="async cache, policy random, limit, ttl; an expired entry looked up and NOT stored again (Err / cache_if / direct get), then stores at full capacity", demo_dest="cachelito-async/tests/", detected_by=["C04 (c04 predicate: more than limit entries)"]),
 ("C05","C"): dict(needs="async cache with limit AND max_memory, exactly full; a store of a value that alone exceeds max_memory", demo_dest="cachelito-async/tests/", detected_by=["C05 (c05 predicate: an oversize value displaced an entry)"]),
 ("C05","D"): dict(needs="a cached value type containing a Box; sizes within size_of::<T>() per box of the limit", demo_dest="tests/", detected_by=["C05 (memest part: estimate != footprint for Box types, AND the engine experiment on GlobalCache<Box<..>>: cached values occupy more than max_memory)"]),
 ("C06","C"): dict(needs="async cache, policy tlru, ttl; a hit at an age of 1..T-1 whole seconds, then a lookup at age >= T counted from the store", demo_dest="cachelito-async/tests/", detected_by=["C06 (c06 predicate on the lifetime scenarios: entry of age >= ttl served)"]),
 ("C06","D"): dict(needs="sync global cache with ttl, no max_memory; a store onto a key that is still present (stale refresh), then a lookup younger than ttl counted from the second store but older counted from the first", demo_dest="tests/", detected_by=["C06 (c06 predicate: entry younger than ttl not served)"]),
 ("C07","C"): dict(needs="thread scope with max_memory, fifo or lru; a value larger than max_memory computed while the cache is non-empty, then overflowing stores", demo_dest="tests/", detected_by=["C07 (c07 predicate)", "C04", "C05"]),
 ("C07","D"): dict(needs="sync global lru with limit and ttl; an older entry used after a younger one was stored, expired but not purged, then an overflow", demo_dest="tests/", detected_by=["C07 (c07 predicate)"]),
 ("C08","C"): dict(needs="async tlru without ttl, frequency_weight other than 1, limits; hit counts for which hits^w x rank and hits x rank have different minimisers", demo_dest="cachelito-async/tests/", detected_by=["C08 (c08 predicate)"]),
 ("C08","D"): dict(needs="sync lfu with limit >= 2; an entry with exactly one hit queued before an entry with no hit", demo_dest="tests/", detected_by=["C08 (c08 predicate)"]),
 ("C12","C"): dict(needs="async function with tags/events/dependencies whose calls so far stored nothing (Err or cache_if rejection); then an invalidation whose count is checked", demo_dest="cachelito-async/tests/", detected_by=["C12 (oracle tags: count)"]),
 ("C12","D"): dict(needs="a tag/event/dependency fired once, then ANOTHER cache declaring it used for the first time, then fired again", demo_dest="tests/", detected_by=["C12 (oracle tags: entries survive, count)"]),
 ("C13","C"): dict(needs="async fifo/lru/arc/tlru with limit, >= 3 entries; partial invalidate_with removing a key that is not one of the two newest; then refill and one eviction", demo_dest="cachelito-async/tests/", detected_by=["C13 (oracle frame / order)"]),
 ("C13","D"): dict(needs="sync global cache with limit; a predicate that matches EVERY stored key; then new keys", demo_dest="tests/", detected_by=["C13 (oracle frame: stale keys left in the queue)"]),
 ("C18","C"): dict(needs="async lru; a hit (holding the DashMap shard guard) overlapping a store or invalidation that holds the order queue", demo_dest="cachelito-async/tests/", detected_by=["C18 / C17 (sched part: NORETURN — calls never return on a lock the hooks do not observe; confirmed by a solo rerun)"]),
 ("C18","D"): dict(needs="sync global lru; a hit whose bookkeeping runs when the order queue is empty (overlapping invalidation, or the window of a concurrent first store)", demo_dest="tests/", detected_by=["C18 (sched part: PANIC in a call)"]),
 ("C01","C"): dict(needs="sync global cache, policy lfu/arc/tlru; a key that is still present and unexpired stored again with a different value (stale refresh)", demo_dest="tests/", detected_by=["C01 (c01 predicate / oracle pure: replaced value served)"]),
 ("C01","D"): dict(needs="async function with a destructuring pattern as parameter; two calls differing only there", demo_dest="cachelito-async/tests/", detected_by=["C01 / C02 (oracle pure on the pattern-parameter corpus functions)"]),
 ("C02","C"): dict(needs="async METHOD with >= 1 argument whose receiver's Debug text does not end in a delimiter (unit variant, integer); two (receiver, argument) pairs whose texts concatenate alike", demo_dest="cachelito-async/tests/", detected_by=["C02 (keys part: collision on am_tag / am_tag2, after unit-variant receivers and arguments were added)"]),
 ("C02","D"): dict(needs="sync function with a parameter named exactly `part` in key position 3 or later; two calls differing only there", demo_dest="tests/", detected_by=["C02 (keys part: collision on s_names, after capturable parameter names were added; macro part on f159-f161)"]),
 ("C03","C"): dict(needs="sync global cache; THREE callers of one new key: S misses and computes, F misses, stores and returns, R calls while S is between removing and re-inserting the entry in its own store", demo_dest="tests/", detected_by=["C03 / C14 (sched part: three-caller schedules with two preemptions: MISS)"]),
 ("C03","D"): dict(needs="async function with >= 2 arguments whose Debug texts are not self-delimiting (integers); a pair like (1,23) / (12,3)", demo_dest="cachelito-async/tests/", detected_by=["C03 (oracle once on f156/f157: first call served without running the body)", "C02 (keys part: collision on a_i2)"]),
 ("C09","C"): dict(needs="Result function with max_memory and a budget within size_of::<T>() per entry of the real sizes", demo_dest="tests/", detected_by=["C09 (oracle err: an Ok that fits is not stored / oracle mem: eviction although everything fits — sizes now computed by the harness, not by the library)", "C05 (memest part)"]),
 ("C09","D"): dict(needs="sync Result function whose Ok leaves the body through an explicit `return Ok(..)`", demo_dest="tests/", detected_by=["C09 (oracle err: Ok not stored; corpus functions f163-f165)"]),
 ("C10","C"): dict(needs="sync Result function with cache_if; a predicate that accepts an Err", demo_dest="tests/", detected_by=["C10 (oracle cif: a result that must not be cached is stored)"]),
 ("C10","D"): dict(needs="sync global cache with ttl, limit and cache_if; an entry expires, its refresh is rejected, then another key is accepted", demo_dest="tests/", detected_by=["C10 (oracle cif: a result that is to be cached is not stored after the call; lifetime scenarios)"]),
 ("C11","C"): dict(needs="async cache with invalidate_on and limit, exactly full; a stale refresh whose policy victim is a different key", demo_dest="cachelito-async/tests/", detected_by=["C11 (oracle limit: a store that did not overflow removed an entry)"]),
 ("C11","D"): dict(needs="sync global cache with ttl and invalidate_on, no max_memory; stale refresh at age < T, then a call older than T from the first store but younger from the refresh", demo_dest="tests/", detected_by=["C11 (oracle ttl with history-based birth: unexpired entry not found; lifetime scenarios)", "C06"]),
 ("C14","C"): dict(needs="sync function with default or global scope whose attribute list mentions `thread` anywhere else (name, tag, event, predicate path); two threads", demo_dest="tests/", detected_by=["C14 (oracle iso: the next call from another thread ran the body again; corpus functions f166-f169)"]),
 ("C14","D"): dict(needs="async lru/arc/tlru with a limit, >= 2 OS threads; a thread repeats a hit on its own key after another thread touched the queue, then a store", demo_dest="cachelito-async/tests/", detected_by=["C14 (oracle order on the ping-pong scenarios)", "C07 / C08 (macro parts now run on 3 threads)"]),
 ("C15","C"): dict(needs="sync global cache with limit = 0", demo_dest="tests/", detected_by=["C15 (c15 predicate on the core part: limit 0 is now in the profile)"]),
 ("C15","D"): dict(needs="async function with invalidate_on; the predicate fires for a cached, unexpired entry", demo_dest="cachelito-async/tests/", detected_by=["C15 (oracle stats, now also for invalidate_on functions: a stale hit is one hit)"]),
 ("C16","C"): dict(needs="thread scope, max_memory, policy lfu/arc/tlru; total of the stored values exceeds max_memory while the new one fits", demo_dest="tests/", detected_by=["C16 (panic 'RefCell already borrowed' in core and macro parts)"]),
 ("C16","D"): dict(needs="async cache with ttl within ~1.8e9 of u64::MAX; a stored key looked up again", demo_dest="cachelito-async/tests/", detected_by=["C16 (panic 'attempt to add with overflow': the ends of the u64/usize ranges are now in the profile)"]),
 ("C17","C"): dict(needs="sync global cache, max_memory, fifo or lru; two concurrent stores of values that each fit alone but not together, the second parked between its map insert and the queue lock", demo_dest="tests/", detected_by=["C17 (sched part, memory-pressure schedules: NORETURN, confirmed alone)"]),
 ("C17","D"): dict(needs="async cache; invalidate_with whose check matches a stored key, concurrent with a store that needs that key's shard", demo_dest="cachelito-async/tests/", detected_by=["C17 (sched part: NORETURN)"]),
 ("C19","C"): dict(needs="#[cache(scope = \"Thread\")] or any other case variant of a valid scope", demo_dest="tests/", detected_by=["C19 (attrs part: the invalid item compiles — case variants, blanks and empty strings are now in the invalid corpus)"]),
 ("C19","D"): dict(needs="sync Result function with max_memory; an Err followed by the same arguments", demo_dest="tests/", detected_by=["C19 (oracle err: an Err is stored)", "C09"]),
 ("C20","C"): dict(needs="async ttl + limit >= 2, policy where the dead entry is not the victim; a call for an expired key suspended while another key is stored", demo_dest="cachelito-async/tests/", detected_by=["C20 (oracle c20: the expired entry is still stored after the lookup of the suspended call)"]),
 ("C20","D"): dict(needs="async function without invalidate_on; a second call with the same arguments completes while the first is suspended, then the first resumes", demo_dest="cachelito-async/tests/", detected_by=["C20 (oracle c20: after the resumed call the entry is not its result born now at the back of the queue)"]),
}


# round 3 (variants E, F = patchA, patchB in /tmp/mut/<id>r3/out)
META3 = {
 ("C02","E"): dict(needs="sync function with an Option<Option<T>> argument, or Option<E> where a unit variant of E is spelled `None`", demo_dest="tests/", detected_by=["C02 (keys part: collision on nested options)"]),
 ("C02","F"): dict(needs="async function with two top-level string arguments one of which contains `|`", demo_dest="cachelito-async/tests/", detected_by=["C02 (keys part: collision on adjacent strings)"]),
 ("C03","E"): dict(needs="async lru/arc/tlru WITHOUT limit, ttl and max_memory; any second call with the same arguments", demo_dest="cachelito-async/tests/", detected_by=["C03 (oracle once)"]),
 ("C03","F"): dict(needs="scope = thread; the same arguments from two threads", demo_dest="tests/", detected_by=["C03 / C14 (oracle iso / once per thread)"]),
 ("C09","E"): dict(needs="sync global Result function with limit AND ttl; an entry expires, its refresh fails, then `limit` other keys succeed", demo_dest="tests/", detected_by=["C09 (oracle limit / err on the Err-refresh lifetime scenarios; corpus functions with limit + ttl + Result)"]),
 ("C09","F"): dict(needs="async Result function with invalidate_on; a stale entry whose recomputation returns Err", demo_dest="cachelito-async/tests/", detected_by=["C09 (oracle err: an Err is stored / served)"]),
 ("C10","E"): dict(needs="async function with cache_if whose verdict is not a pure function of key and value; a hit", demo_dest="cachelito-async/tests/", detected_by=["C10 (oracle cif: predicate consulted on a hit)"]),
 ("C10","F"): dict(needs="sync function with cache_if whose body leaves through `return` or `?`", demo_dest="tests/", detected_by=["C10 (oracle cif on the early-return corpus functions f170-f173)"]),
 ("C14","E"): dict(needs="sync global cache with a limit; two callers that both miss on one key before either stores", demo_dest="tests/", detected_by=["C14 (sched part, double-store schedules: MISS)", "C18 (queue holds a key twice at quiescence)"]),
 ("C14","F"): dict(needs="async cache with limit n holding n-1 other entries; two callers that both miss on one key and store at the same time", demo_dest="cachelito-async/tests/", detected_by=["C14 (sched part, double-store schedules: the unrelated key is evicted)"]),
 ("C15","E"): dict(needs="the same cache's statistics reset twice, the first time with non-zero counters", demo_dest="tests/", detected_by=["C15 (oracle stats after sreset events)"]),
 ("C15","F"): dict(needs="sync global function with max_memory; any miss", demo_dest="tests/", detected_by=["C15 (oracle stats: a miss booked twice)"]),
 ("C16","E"): dict(needs="async cache with limit AND max_memory; a stale refresh of a key that is not the newest with a value that fits alone but not beside the others", demo_dest="cachelito-async/tests/", detected_by=["C16 (panic 'attempt to subtract with overflow')"]),
 ("C16","F"): dict(needs="sync tlru with ttl and a frequency_weight near the end of the float range; a twice-hit entry left unvisited past its ttl, then an overflow", demo_dest="tests/", detected_by=["C16 (panic in partial_cmp().unwrap(): extreme weights with ttl are now in the C16 profile)"]),
 ("C01","E"): dict(needs="sync function with >= 2 parameters one of them a string; two argument lists whose texts differ only in where a literal `|` sits", demo_dest="tests/", detected_by=["C01 (oracle pure on f178-f180: two string parameters with `|`)", "C02 (keys part)"]),
 ("C01","F"): dict(needs="async invalidate_on refresh (or concurrent double store) in the same wall-clock second as the previous store", demo_dest="cachelito-async/tests/", detected_by=["C01 / C11 (oracle inv: fresh result did not replace the stale entry)"]),
 ("C04","E"): dict(needs="sync global Result function with limit and invalidate_on; a stale entry whose refresh returns Err, then further stores", demo_dest="tests/", detected_by=["C04 (macro part C04R: scripted Result / invalidate_on / cache_if functions with a limit; oracle limit incl. queue-store consistency)"]),
 ("C04","F"): dict(needs="async cache at its limit; invalidate_with with a predicate that is not a function of the key (a budget)", demo_dest="cachelito-async/tests/", detected_by=["C04 (budgeted-predicate events `invwb`: queue and stored keys disagree / more than limit entries)"]),
 ("C05","E"): dict(needs="async cache; a store after which the total would be EXACTLY max_memory", demo_dest="cachelito-async/tests/", detected_by=["C05 (c05 predicate: eviction although it fits)"]),
 ("C05","F"): dict(needs="scope = thread, Result return type, max_memory", demo_dest="tests/", detected_by=["C05 (oracle mem at macro level: total > max_memory)"]),
 ("C06","E"): dict(needs="async; lookup at whole-second age exactly T whose recomputation stores nothing (Err / cache_if); limit; LFU/ARC/TLRU", demo_dest="cachelito-async/tests/", detected_by=["C06 (c06 predicate: expired entry not purged)"]),
 ("C06","F"): dict(needs="sync global lru/arc/tlru with ttl; an older key hit after a younger one was stored, then looked up expired", demo_dest="tests/", detected_by=["C06 (oracle limit, now applied with ttl too: entries other than the looked-up key disappeared without overflow)"]),
 ("C07","E"): dict(needs="async lru with limit >= 2, no max_memory; a hit while the cache is not yet full, then overflow", demo_dest="cachelito-async/tests/", detected_by=["C07 (c07 predicate)"]),
 ("C07","F"): dict(needs="sync global fifo/lru with limit and a tag/event/dependency; group invalidation of a non-empty cache, then NEW keys", demo_dest="tests/", detected_by=["C07 (macro part with tag/event/dep/invc events; oracles order / limit)"]),
 ("C08","E"): dict(needs="thread scope, entry limit without max_memory, lfu/arc/tlru; every resident entry has a hit when a new key overflows", demo_dest="tests/", detected_by=["C08 (c08 predicate)"]),
 ("C08","F"): dict(needs="async arc/tlru with max_memory; one store that evicts two or more residents with hit counts that make the stale rank flip the second choice", demo_dest="cachelito-async/tests/", detected_by=["C08 (c08 predicate on multi-eviction stores; large-value scenario; corpus case)"]),
 ("C11","E"): dict(needs="sync global max_memory + invalidate_on; a stale refresh whose result is too large to be cached, then the check accepts the old value again", demo_dest="tests/", detected_by=["C11 (oracle inv: stale entry survives an oversize refresh; values of 224 bytes in the scripted profiles)"]),
 ("C11","F"): dict(needs="async invalidate_on refresh within the same wall-clock second as the store", demo_dest="cachelito-async/tests/", detected_by=["C11 (oracle inv)"]),
 ("C12","E"): dict(needs="more than 16 caches (not a multiple of 16) under one tag/event/dependency", demo_dest="tests/", detected_by=["C12 (mass-label scenario over 18 caches: count and left-over entries)"]),
 ("C12","F"): dict(needs="async cache with a tag; group invalidation while another thread is inside a store (queue mutex held)", demo_dest="cachelito-async/tests/", detected_by=["C12 (sched part, store parked in the user's MemoryEstimator under the queue lock: STALE)"]),
 ("C13","E"): dict(needs="invalidate_all_with with a predicate that depends on the cache name; the same key in two caches", demo_dest="tests/", detected_by=["C13 (oracle frame for invalidate_all_with, per cache name)"]),
 ("C13","F"): dict(needs="sync global ttl + limit, lru/arc/tlru; an entry read before it expires, expired and not looked up, then invalidated by predicate, then a store", demo_dest="tests/", detected_by=["C13 (oracle frame)"]),
 ("C17","E"): dict(needs="sync global ttl; T1 sees the key expired and is parked before the purge, another thread stores a fresh value, T1 proceeds", demo_dest="tests/", detected_by=["C17 (sched part, same-key expired pair: DEADLOCK — the thread waits for a lock it holds)"]),
 ("C17","F"): dict(needs="async max_memory; a store for an already stored key with a value larger than max_memory (sequential!)", demo_dest="cachelito-async/tests/", detected_by=["C17 (macro part: an operation of a sequential history never returned)", "C16"]),
 ("C18","E"): dict(needs="async limit; a store that replaces a resident key racing the removal of that key", demo_dest="cachelito-async/tests/", detected_by=["C18 (sched part, stale-refresh schedules on invalidate_on functions: PANIC / LIMIT)"]),
 ("C18","F"): dict(needs="sync global max_memory; a writer queueing for the map lock between the two read acquisitions of one store", demo_dest="tests/", detected_by=["C18 / C17 (sched part: DEADLOCK; locks part: re-acquisition of a held lock)"]),
 ("C19","E"): dict(needs="sync function whose return type is spelled std::result::Result<..>; an Err then the same call", demo_dest="tests/", detected_by=["C19 (oracle err)"]),
 ("C19","F"): dict(needs="async tlru with limit and frequency_weight != 1; hit counts for which the weight decides the victim", demo_dest="cachelito-async/tests/", detected_by=["C19 (oracle score / correspondence)"]),
 ("C20","E"): dict(needs="async max_memory; a same-key call stores during the suspension, the resumed call's result is larger than max_memory", demo_dest="cachelito-async/tests/", detected_by=["C20 (oracle c20: result too large yet an entry for the key is still stored)"]),
 ("C20","F"): dict(needs="async limit without max_memory, lfu/arc/tlru/random; a same-key call stores during the suspension, cache full, resume", demo_dest="cachelito-async/tests/", detected_by=["C20 (oracle c20: a replacing store evicted other entries / queue and stored keys disagree)"]),
}


# round 4 (variants G, H = patchA, patchB in /tmp/mut/<id>r4/out)
META4 = {
 ("C03","G"): dict(needs="async function with a destructuring-pattern parameter; two calls differing only there", demo_dest="cachelito-async/tests/", detected_by=["C03 (oracle once on the plain pattern-parameter functions)"]),
 ("C03","H"): dict(needs="sync function with a Vec<Vec<T>> argument; two nested vectors with the same flattened contents", demo_dest="tests/", detected_by=["C03 (oracle once on the nested-collection functions, sig 10)", "C02"]),
 ("C04","G"): dict(needs="sync global limit without max_memory, fifo/lfu/random; a stale refresh of a key that is not the newest", demo_dest="tests/", detected_by=["C04 (macro part C04R: queue and stored keys disagree / a store that did not overflow removed an entry)"]),
 ("C04","H"): dict(needs="scope = thread with limit AND max_memory", demo_dest="tests/", detected_by=["C04 (c04 predicate)"]),
 ("C05","G"): dict(needs="async max_memory; a stale refresh whose new value alone exceeds max_memory, then a store", demo_dest="cachelito-async/tests/", detected_by=["C05 (oracle mem / c05 predicate: total > max_memory)"]),
 ("C05","H"): dict(needs="sync global lru/arc/tlru with max_memory and NO limit; a hit on an older entry, then an overflow", demo_dest="tests/", detected_by=["C05 (core part now evaluates the order predicates c07/c08 under memory pressure, with scenarios)"]),
 ("C06","G"): dict(needs="sync ttl; a lookup at an age in [T-0.5 s, T)", demo_dest="tests/", detected_by=["C06 (c06 predicate: 250 ms time steps)"]),
 ("C06","H"): dict(needs="async ttl; a refresh (expired entry found) whose body takes real time", demo_dest="cachelito-async/tests/", detected_by=["C06 / C20 (slow-refresh scenario with a real sleep while the call is suspended: entry born at the lookup, not at the store)"]),
 ("C11","G"): dict(needs="sync global invalidate_on whose verdict for the old value flips while the body runs (dirty flag cleared by the recomputation)", demo_dest="tests/", detected_by=["C11 (check scripts that say stale once and fresh afterwards within one call; oracle inv)"]),
 ("C11","H"): dict(needs="async Result + invalidate_on; stale entry, recomputation returns Err", demo_dest="cachelito-async/tests/", detected_by=["C11 (oracle inv: the rejected value was returned instead of the body's result)"]),
 ("C12","G"): dict(needs="an event label with an upper-case letter or surrounding blanks", demo_dest="tests/", detected_by=["C12 (oracle tags: count)"]),
 ("C12","H"): dict(needs="async cache with labels and no name attribute; invalidate_cache(<function name>)", demo_dest="cachelito-async/tests/", detected_by=["C12 (oracle tags for invalidate_cache: registered under its name)"]),
 ("C13","G"): dict(needs="sync global lru/arc/tlru with limit >= 5; a hit on an old entry, then an invalidate_with removing more entries than it leaves, then overflow", demo_dest="tests/", detected_by=["C13 (bulk-invalidation scenario; oracle frame: queue order of the survivors)"]),
 ("C13","H"): dict(needs="async ttl + limit; an expired, not looked-up entry whose key does not match; any invalidate_with", demo_dest="cachelito-async/tests/", detected_by=["C13 (oracle frame)"]),
 ("C14","G"): dict(needs="sync global lfu/arc/tlru with a limit; hits by one thread, the evicting store by another", demo_dest="tests/", detected_by=["C14 (oracle score on three threads)"]),
 ("C14","H"): dict(needs="async ttl; B sees the key expired, C stores a fresh value, B purges", demo_dest="cachelito-async/tests/", detected_by=["C14 (sched part, failed-refresh races: the fresh value is not served)"]),
 ("C17","G"): dict(needs="sync global limit L; more than L stores in flight between their map write and the queue lock", demo_dest="tests/", detected_by=["C17 (sched part: NORETURN)"]),
 ("C17","H"): dict(needs="async lru/arc/tlru; a hit holding a DashMap guard while it waits for the queue, a store holding the queue", demo_dest="cachelito-async/tests/", detected_by=["C17 (sched part: NORETURN)"]),
 ("C18","G"): dict(needs="async ttl + limit; an expired lookup racing a store of the same key whose own result is not stored", demo_dest="cachelito-async/tests/", detected_by=["C18 (sched part, failed-refresh races: UNTRACKED at quiescence)"]),
 ("C18","H"): dict(needs="sync global ttl; an expired lookup racing a store inside its queue section (map-then-queue order in the purge)", demo_dest="tests/", detected_by=["C18 / C17 (sched part: DEADLOCK; locks part: order violated)"]),
 ("C20","G"): dict(needs="async max_memory with room for exactly the resident values; a same-key store during the suspension, then the resumed store", demo_dest="cachelito-async/tests/", detected_by=["C20 (tight-replace scenario; oracle c20: a replacing store evicted although everything fits)"]),
 ("C20","H"): dict(needs="async ttl, no max_memory; a same-key store during the suspension, ttl runs out, resume", demo_dest="cachelito-async/tests/", detected_by=["C20 (oracle c20: entry born before the resume)"]),
}


META5 = {
 ("C01","G"): dict(needs="sync function with an Option<Option<T>> parameter; calls with None and Some(None)", demo_dest="tests/", detected_by=["C01 (oracle pure on the nested-option functions, sig 11)", "C02"]),
 ("C01","H"): dict(needs="async function with a by-value f64 parameter; calls with 0.0 and -0.0", demo_dest="cachelito-async/tests/", detected_by=["C01 (oracle pure on the two-zeros functions, sig 12)"]),
 ("C02","G"): dict(needs="sync function with a string-bearing argument; two values differing only by a blank after a comma", demo_dest="tests/", detected_by=["C02 (keys part: collision of two different argument lists)"]),
 ("C02","H"): dict(needs="sync method with a receiver and exactly one further argument, called on two receivers", demo_dest="tests/", detected_by=["C02 (oracle pure on the method functions)", "C01"]),
 ("C07","G"): dict(needs="sync global lru; a hit that overlaps a store of another thread (which holds the queue lock), then an overflow", demo_dest="tests/", detected_by=["C07 (schedules lr-: a key looked up during a concurrent store is evicted before older ones)"]),
 ("C07","H"): dict(needs="scope = thread with ttl and limit, fifo or lru; an expired key looked up and stored again, then an overflow", demo_dest="tests/", detected_by=["C07 (c07 predicate / queue correspondence)"]),
 ("C08","G"): dict(needs="sync global lfu/arc/tlru with max_memory; a store over an existing key that has hits (stale refresh) with a larger value", demo_dest="tests/", detected_by=["C08 (c08 predicate + freq correspondence)"]),
 ("C08","H"): dict(needs="async arc/tlru; invalidate_with removing an entry in front of the survivors, then an overflow with close scores", demo_dest="cachelito-async/tests/", detected_by=["C08 (oracle score / queue correspondence)"]),
 ("C09","G"): dict(needs="scope = thread, max_memory, Result; an Ok value whose size is exactly max_memory", demo_dest="tests/", detected_by=["C09 (exact-fit scenario: an Ok that fits is not stored)"]),
 ("C09","H"): dict(needs="sync global Result with invalidate_on, no max_memory; stale entry, Ok refresh, same call again", demo_dest="tests/", detected_by=["C09 (oracle err on the Result + invalidate_on functions: the refreshing Ok is not stored)", "C11", "C19"]),
 ("C10","G"): dict(needs="sync Result function with cache_if; an execution that returns Err", demo_dest="tests/", detected_by=["C10 (oracle cif: consultation log)"]),
 ("C10","H"): dict(needs="async cache_if with max_memory; an accepted value whose size is exactly max_memory", demo_dest="cachelito-async/tests/", detected_by=["C10 (exact-fit scenario: accepted result not stored)", "C05"]),
 ("C15","G"): dict(needs="sync global with ttl; two callers at an expiry instant: one purges and stores, the other finds the fresh entry under the write lock", demo_dest="tests/", detected_by=["C15 (schedules xr-: statistics at quiescence, hits + misses != lookups)"]),
 ("C15","H"): dict(needs="async lru/arc/tlru; an eviction or invalidation between a hit's entry access and its queue update", demo_dest="cachelito-async/tests/", detected_by=["C15 (schedules: statistics at quiescence)"]),
 ("C16","G"): dict(needs="scope = thread with max_memory and values smaller than 24 bytes; an overflow", demo_dest="tests/", detected_by=["C16 (core part: panic)"]),
 ("C16","H"): dict(needs="async with limit = usize::MAX; a store over a key that is still cached", demo_dest="cachelito-async/tests/", detected_by=["C16 (core part, extremes profile: panic)"]),
 ("C19","G"): dict(needs="sync function with a destructuring-pattern parameter; two calls differing only there", demo_dest="tests/", detected_by=["C19 (oracle pure on the pattern-parameter functions)", "C02"]),
 ("C19","H"): dict(needs="sync global Result with invalidate_on, no max_memory; stale entry, Ok refresh, same call again", demo_dest="tests/", detected_by=["C19 (oracles err / inv on the Result + invalidate_on functions)", "C09"]),
}

META6 = {
 ("C01","I"): dict(needs="sync function with a nested collection argument (Vec<Vec<T>>); two groupings of the same scalar sequence", demo_dest="tests/", detected_by=["C01 (oracle pure on the nested-collection functions, sig 10)", "C02"]),
 ("C01","J"): dict(needs="async function with a Vec<u8> / &[u8] parameter; two buffers that are not valid UTF-8 and differ only inside the invalid sequence", demo_dest="cachelito-async/tests/", detected_by=["C01 (oracle pure on the byte-buffer functions, sig 13)"]),
 ("C02","I"): dict(needs="async method with &self; two receiver VALUES at one address in turn (one object mutated, or short-lived receivers)", demo_dest="cachelito-async/tests/", detected_by=["C02 (keys part / oracle pure on methods with a receiver built afresh per call, sig 14)"]),
 ("C02","J"): dict(needs="sync function with a float (component); two values equal after rounding to 9 decimals", demo_dest="tests/", detected_by=["C02 (keys part)"]),
 ("C03","I"): dict(needs="sync global cache; two callers that miss on DIFFERENT arguments and store at the same time", demo_dest="tests/", detected_by=["C03 (schedules dk-: two overlapping first calls for different keys, both served afterwards)"]),
 ("C03","J"): dict(needs="async fn without a return type", demo_dest="cachelito-async/tests/", detected_by=["C03 (oracle once on the functions without a return value)"]),
 ("C04","I"): dict(needs="async limit AND max_memory; cache full, a value larger than max_memory offered under a new key", demo_dest="cachelito-async/tests/", detected_by=["C04 (c04 predicate / correspondence)"]),
 ("C04","J"): dict(needs="sync global limit with tags/events/dependencies; group invalidation of a non-empty cache, then NEW keys", demo_dest="tests/", detected_by=["C04 (macro oracle limit)"]),
 ("C04","K"): dict(needs="sync global limit AND max_memory; any fill to the limit", demo_dest="tests/", detected_by=["C04 (c04 predicate)"]),
 ("C05","I"): dict(needs="sync global ttl AND max_memory; entries expire without being looked up, then stores", demo_dest="tests/", detected_by=["C05 (c05 predicate: total > max_memory)"]),
 ("C05","J"): dict(needs="scope = thread, max_memory, fifo; a re-store of a cached key that is not at the back (stale refresh), then pressure or an oversize refresh", demo_dest="tests/", detected_by=["C05 (core part: queue correspondence / order predicates under memory pressure)"]),
 ("C06","I"): dict(needs="async ttl with a limit; an expired lookup NOT followed by a store of that key (Err / rejected), then stores", demo_dest="cachelito-async/tests/", detected_by=["C06 (c06 predicate: expired key still stored after the lookup)"]),
 ("C06","J"): dict(needs="scope = thread with ttl and limit; an entry stored twice (stale refresh) that later expires", demo_dest="tests/", detected_by=["C06 (core part: queue correspondence / c06 predicate)"]),
 ("C07","I"): dict(needs="sync global lru with max_memory and NO limit; a hit on an older entry, then an overflow", demo_dest="tests/", detected_by=["C07 (c07 predicate under memory pressure)"]),
 ("C07","J"): dict(needs="async fifo/lru with max_memory and invalidate_on; an oversize refresh of a cached key, then an overflow", demo_dest="cachelito-async/tests/", detected_by=["C07 (correspondence / order oracle)"]),
 ("C08","I"): dict(needs="sync lfu/arc/tlru with max_memory and NO limit; hits, then a memory overflow", demo_dest="tests/", detected_by=["C08 (c08 predicate + freq correspondence)"]),
 ("C08","J"): dict(needs="async tlru with frequency_weight written BEFORE policy in the attribute list", demo_dest="cachelito-async/tests/", detected_by=["C08 (oracle score on the weighted TLRU functions; the corpus rotates attribute order)"]),
 ("C09","I"): dict(needs="async Result with limit or max_memory; a failing call for a further key while the cache is full of Ok entries", demo_dest="cachelito-async/tests/", detected_by=["C09 (oracle err: an Err is stored)"]),
 ("C09","J"): dict(needs="sync Result with invalidate_on; a stale entry whose refresh fails", demo_dest="tests/", detected_by=["C09 (oracle err: a failing call removed the stored Ok)"]),
 ("C10","I"): dict(needs="async cache_if; two executions for one key that overlap, the first finisher accepted", demo_dest="cachelito-async/tests/", detected_by=["C10 (suspended calls on gated cache_if functions: consultation at resume)"]),
 ("C10","J"): dict(needs="sync cache_if AND max_memory; a result larger than max_memory", demo_dest="tests/", detected_by=["C10 (oracle cif: consultation log)"]),
 ("C11","I"): dict(needs="async max_memory with invalidate_on; stale and fresh value each fit max_memory alone but not together", demo_dest="cachelito-async/tests/", detected_by=["C11 (oracle inv: fresh result did not replace the stale entry)"]),
 ("C11","J"): dict(needs="sync ttl with invalidate_on (or an expired entry); a refresh whose body takes real time >= ttl", demo_dest="tests/", detected_by=["C11 / C06 (slow-body scenario: the call that follows the slow refresh at once is not served)"]),
 ("C12","I"): dict(needs="one cache declaring the same label string in two kinds (tag + event, event + dependency); invalidation through the later kind", demo_dest="tests/", detected_by=["C12 (oracle tags on the functions with one label in two kinds)"]),
 ("C12","J"): dict(needs="sync global cache WITHOUT tags/events/dependencies, used once; invalidate_cache(<its name>)", demo_dest="tests/", detected_by=["C12 (oracle tags for invalidate_cache: false for an unlabelled cache)"]),
 ("C13","I"): dict(needs="sync global cache with a custom name; an invalidation addressed to its function identifier", demo_dest="tests/", detected_by=["C13 (invalidations by the identifier of a function whose cache carries another name; oracle frame)"]),
 ("C13","J"): dict(needs="the same string used as an event by one cache and as a dependency by another", demo_dest="tests/", detected_by=["C13 (oracle frame; corpus functions sharing a string across kinds)", "C12"]),
 ("C14","I"): dict(needs="sync global with ttl or limit, no invalidate_on; two threads computing one key, the slower one's store lands on a present entry", demo_dest="tests/", detected_by=["C14 (schedules ex-: the entry expires while a second caller computes; its fresh store must be served)"]),
 ("C14","J"): dict(needs="async max_memory; two tasks store one key concurrently while others + 2 x size(k) exceeds max_memory", demo_dest="cachelito-async/tests/", detected_by=["C14 (schedules dm-: double store under max_memory evicts a resident entry that fits)"]),
 ("C15","I"): dict(needs="sync global cache with tags/events/dependencies; lookups, then a group or by-name invalidation, then read the statistics", demo_dest="tests/", detected_by=["C15 (oracle stats with invalidations in the history)"]),
 ("C15","J"): dict(needs="two caches whose names differ only in letter case, both used; statistics read or reset by name", demo_dest="tests/", detected_by=["C15 (twin-name scenario, oracle stats)"]),
 ("C16","I"): dict(needs="async random with exactly one resident entry when an eviction is needed (limit = 1, or max_memory with room for one)", demo_dest="cachelito-async/tests/", detected_by=["C16 (core part: panic)"]),
 ("C16","J"): dict(needs="sync global arc with ttl and limit; one expired, not looked-up entry behind two live ones in the queue, then an overflow", demo_dest="tests/", detected_by=["C16 (core part: panic)"]),
 ("C17","I"): dict(needs="sync global arc/tlru; a hit concurrent with an operation that holds the queue lock and needs the map", demo_dest="tests/", detected_by=["C17 (lock traces: order violated; schedules: deadlock)"]),
 ("C17","J"): dict(needs="sync global; invalidate_with matching a stored key, concurrent with a store that holds the queue lock", demo_dest="tests/", detected_by=["C17 (lock traces / schedules: deadlock)"]),
 ("C18","I"): dict(needs="async lru/arc/tlru with limit; a hit between its contains_key and the queue lock while a store evicts that key; later a miss on it while the cache is full", demo_dest="cachelito-async/tests/", detected_by=["C18 (schedules: at quiescence the async queue lists a key that is not stored)"]),
 ("C18","J"): dict(needs="sync global max_memory; a store overtaken, between its map insert and the queue lock, by an invalidation removing its key", demo_dest="tests/", detected_by=["C18 (schedules: panic in the storing call)"]),
 ("C19","I"): dict(needs="frequency_weight written before policy = tlru (async observable)", demo_dest="cachelito-async/tests/", detected_by=["C19 (oracle score on the weighted TLRU functions)", "C08"]),
 ("C19","J"): dict(needs="scope = thread with limit AND max_memory, the limit binding first", demo_dest="tests/", detected_by=["C19 (oracle limit)", "C04"]),
 ("C20","I"): dict(needs="async fifo (lfu ties) with limit; a resumed store over an entry another call stored during the suspension, then an overflow", demo_dest="cachelito-async/tests/", detected_by=["C20 (oracle c20: the resumed call did not move its key to the back)"]),
 ("C20","J"): dict(needs="async invalidate_on with Result or cache_if; a suspended call, a same-key call stores meanwhile, the resumed call's result is not cacheable", demo_dest="cachelito-async/tests/", detected_by=["C20 (oracle c20: entry stored meanwhile is gone)"]),
}

def main():
    todo = [(pid, v, m, "/tmp/mut/%s/out" % pid, v) for (pid, v), m in META.items()]
    todo += [(pid, v, m, "/tmp/mut/%sr4/out" % pid, {"G": "A", "H": "B"}[v]) for (pid, v), m in META4.items()]
    todo += [(pid, v, m, "/tmp/mut/%sr5/out" % pid, {"G": "A", "H": "B"}[v]) for (pid, v), m in META5.items()]
    todo += [(pid, v, m, "/tmp/mut/%sr6/out" % pid, {"I": "A", "J": "B", "K": "C"}[v]) for (pid, v), m in META6.items()]
    todo += [(pid, v, m, "/tmp/mut/%sr2/out" % pid, {"C": "A", "D": "B"}[v]) for (pid, v), m in META2.items()]
    todo += [(pid, v, m, "/tmp/mut/%sr3/out" % pid, {"E": "A", "F": "B"}[v]) for (pid, v), m in META3.items()]
    for pid, v, m, src, sv in todo:
        if not os.path.exists(src + "/patch%s.diff" % sv):
            continue
        dst = "/verif/seeded/%s-%s" % (pid, v)
        if os.path.exists(dst + "/patch.diff"):
            continue   # already saved (some patches were ported by hand afterwards)
        os.makedirs(dst, exist_ok=True)
        shutil.copy(src + "/patch%s.diff" % sv, dst + "/patch.diff")
        shutil.copy(src + "/demo%s.rs" % sv, dst + "/demo.rs")
        v_src = v
        v = v
        extra = src + "/demo%s_async.rs" % sv
        if os.path.exists(extra):
            shutil.copy(extra, dst + "/demo_async.rs")
        meta = dict(property=pid, variant=v, breaks=pid, needs_to_manifest=m["needs"], demo_goes_to=m["demo_dest"],
                    confirmed=dict(how="tools/confirm_mutant.sh in a scratch worktree of /repo: demo passes on HEAD, fails with the change; "
                                       "cargo test --workspace --offline --no-fail-fast passes with the change (401 passed, 0 failed)",
                                   results_file="see DESIGN.md section 12"),
                    ran="tools/run_mutant.sh /verif/seeded/%s-%s/patch.diff %s" % (pid, v, pid), detected_by=m["detected_by"])
        json.dump(meta, open(dst + "/meta.json", "w"), indent=1)
    print(sorted(os.listdir("/verif/seeded")))
main()
