#!/usr/bin/env python3
"""harvest.py <seeded-id> <property> — after `./check <property>` has reported a violation with a concrete replay on a
tree that carries the seeded change, copy the minimised failing case into the regression corpus that runs first
(corpus/core.txt, corpus/macro/<property>.txt or corpus/sched.txt), renamed seeded-<id>.  Idempotent."""
import glob, os, re, sys
sid, prop = sys.argv[1], sys.argv[2]
ROOT = "/verif"
files = sorted(glob.glob("%s/build/replay/%s-*-prop.txt" % (ROOT, prop)) + glob.glob("%s/build/replay/%s-*-panic.txt" % (ROOT, prop)),
               key=os.path.getmtime)
if not files:
    print("no concrete replay for", sid); sys.exit(1)
lines = [l.rstrip("\n") for l in open(files[-1]) if not l.startswith("#")]
block, on = [], False
for l in lines:
    t = l.split()
    if t and t[0] in ("CASE", "CCASE", "PCASE", "RTCASE"):
        on = True
    if on:
        block.append(l)
        if l.startswith("END"):
            break
if not block or not block[-1].startswith("END"):
    print("no case block in", files[-1]); sys.exit(1)
head = block[0].split()
kind = head[0]
# the replay writer turns every schedule header into CCASE; the original id tells the family
if kind == "CCASE" and head[1].startswith("st-"):
    kind = head[0] = "STRESS"
elif kind == "CCASE" and head[1].startswith(("p-", "e-")):
    kind = head[0] = "PCASE"
pref = head[1].split("-")[0] + "-" if head[1].split("-")[0] in ("st", "p", "e", "t3", "ds", "xr", "lr", "dk", "ex", "dm") else ""
head[1] = pref + "seeded-" + sid
block[0] = " ".join(head)
if kind in ("CCASE", "PCASE", "STRESS"):
    dest = ROOT + "/corpus/sched.txt"
elif kind == "CASE" and len(head) == 3:
    dest = ROOT + "/corpus/macro/%s.txt" % prop
else:
    dest = ROOT + "/corpus/core.txt"
old = open(dest).read() if os.path.exists(dest) else ""
if ("%s %s " % (kind, head[1])) in old or ("%s %s\n" % (kind, head[1])) in old:
    print("already in", dest); sys.exit(0)
os.makedirs(os.path.dirname(dest), exist_ok=True)
open(dest, "a").write("\n".join(block) + "\n")
print("added", head[1], "to", dest)
