#!/usr/bin/env python3
"""gen_sched.py — two-thread schedules at lock-acquisition granularity for vh-macro sched.
Thread A runs one operation and is parked before its n-th lock acquisition; thread B then runs
one operation (to completion, or until it blocks); A resumes; afterwards a sequential probe.
usage: gen_sched.py --table T --seed N --count N --out FILE      (count <= 0: the full enumeration)
"""
import argparse, json, sys
sys.path.insert(0, __import__("os").path.dirname(__import__("os").path.abspath(__file__)))
from gen_mcases import Rng, read_table


def val(f, x):
    return (f["idx"] * 37 + x * 11) % 500 + 1


def call(f, x, ln=8, inv=0):
    ok = "ok" if (not f["is_result"] or x % 3 != 0) else "err"
    return "call %d %d 0 %s %d %d %d 1" % (f["idx"], x, ok, val(f, x), ln, inv)


def main():
    ap = argparse.ArgumentParser()
    ap.add_argument("--table", required=True)
    ap.add_argument("--seed", type=int, default=1)
    ap.add_argument("--count", type=int, default=300)
    ap.add_argument("--out", required=True)
    a = ap.parse_args()
    fns = [f for f in read_table(a.table) if f["fl"] != "t" and f["sig"] == 0 and not f["inval_on"] and not f["cache_if"]]
    r = Rng(a.seed * 104729 + 17)
    cases = []
    for f in fns:
        L = f["limit"] or 3
        fill = [call(f, x) for x in range(L)]
        ops = [call(f, L), call(f, L + 1), call(f, 0), "invw %d 0" % f["idx"], "invw %d 0,1" % f["idx"],
               "invc %d" % f["idx"], "invall", "sget %d" % f["idx"]]
        for t in f["tags"][:1]:
            ops.append("tag %s" % t)
        for e in f["events"][:1]:
            ops.append("event %s" % e)
        for d in f["deps"][:1]:
            ops.append("dep %s" % d)
        probes = [call(f, L + 2), call(f, L + 3), call(f, L + 4), call(f, 1)]
        for ai, A in enumerate(ops):
            for bi, B in enumerate(ops):
                if A.startswith("sget") and B.startswith("sget"):
                    continue
                for pause in range(1, 8):
                    cases.append((f, fill, [], A, B, pause, probes))
        if f["ttl"]:
            # an expired entry looked up while another thread stores the same key
            for pause in range(1, 5):
                age = (f["ttl"] + 1) * (1 if f["fl"] == "a" else 1000)
                cases.append((f, fill, ["age %d 0 %d" % (f["idx"], age)], call(f, 0), call(f, 0), pause, probes))
                cases.append((f, fill, ["age %d 0 %d" % (f["idx"], age)], call(f, 0), call(f, L), pause, probes))
    special = []
    allf = read_table(a.table)
    # an expired lookup racing an evicting store that is parked inside its queue section (both directions)
    for f in fns:
        if f["ttl"]:
            L = f["limit"] or 3
            fill = [call(f, x) for x in range(L)]
            age = (f["ttl"] + 1) * (1 if f["fl"] == "a" else 1000)
            probes = [call(f, L + 2), call(f, 1)]
            for pause in range(1, 7):
                special.append((f, fill, ["age %d 0 %d" % (f["idx"], age)], call(f, L), call(f, 0), pause, probes))
                special.append((f, fill, ["age %d 0 %d" % (f["idx"], age)], call(f, 0), call(f, L), pause, probes))
                special.append((f, fill, ["age %d 0 %d" % (f["idx"], age)], "invw %d 1" % f["idx"], call(f, 0), pause, probes))
    # a hit racing a store and a hit racing an invalidation, every pause point of the hit, on every function
    # (always kept: a lookup that holds a guard the hooks cannot see while it takes an observed lock only
    # shows as a call that never returns)
    for f in fns:
        L = f["limit"] or 3
        fill = [call(f, x) for x in range(L)]
        probes = [call(f, L + 2), call(f, 1)]
        for pause in range(1, 4):
            special.append((f, fill, [], call(f, 0), call(f, L), pause, probes))
            special.append((f, fill, [], call(f, 0), "invw %d 0,1" % f["idx"], pause, probes))
    # the SAME expired key looked up by both threads: one sees it expired and is parked before the purge, the other
    # purges, recomputes and stores a fresh value
    for f in fns:
        if f["ttl"]:
            L = f["limit"] or 3
            fill = [call(f, x) for x in range(L)]
            age = (f["ttl"] + 1) * (1 if f["fl"] == "a" else 1000)
            for pause in range(1, 7):
                special.append((f, fill, ["age %d 0 %d" % (f["idx"], age)], call(f, 0), call(f, 0), pause, [call(f, L + 2), call(f, 0)]))
    # a stale refresh (invalidate_on says stale: a store REPLACING a resident entry) racing an invalidation or a store
    for f in allf:
        if f["fl"] == "t" or f["sig"] != 0 or f["gates"] or not f["inval_on"] or f["cache_if"] or f["ret"] != 0:
            continue
        L = f["limit"] or 3
        fill = [call(f, x) for x in range(min(L, 2))]
        for pause in range(1, 5):
            for B in ["invw %d 0" % f["idx"], "invw %d 0,1" % f["idx"], call(f, L + 1), call(f, 0)]:
                special.append((f, fill, [], call(f, 0, inv=1), B, pause, [call(f, L + 2), call(f, 1)]))
    # memory pressure: two concurrent stores of values that each fit max_memory alone but not together
    # (String payloads: size = 24 + length), first into an empty cache, then beside a resident entry
    for f in fns:
        if f["mem"] and f["ret"] in (1, 3) and f["mem"] >= 64:
            ln = f["mem"] // 2 - 20
            for pause in range(1, 9):
                special.append((f, [], [], call(f, 1, ln), call(f, 2, ln), pause, [call(f, 4), call(f, 1, ln)]))
                special.append((f, [call(f, 4)], [], call(f, 1, ln), call(f, 2, ln), pause, [call(f, 5), call(f, 2, ln)]))
    # an operation on all caches racing the FIRST call (registration) of a function never used before
    fresh = [g for g in allf if g["fl"] != "t" and g["sig"] == 0 and not g["gates"] and g["ret"] == 0]
    for n, f in enumerate(fns[:6]):
        g = fresh[-(1 + n % 5)]
        if g["idx"] == f["idx"]:
            continue
        L = f["limit"] or 3
        fill = [call(f, x) for x in range(L)] + [call(fns[(n + 1) % len(fns)], 0)]
        for A in ["invall", "tag t1", "invw %d 0" % f["idx"], "sget %d" % f["idx"], "invc %d" % f["idx"]]:
            for pause in range(1, 6):
                special.append((f, fill, [], A, call(g, 0), pause, [call(f, L + 2), call(g, 0)]))
    total = len(cases) + len(special)
    if a.count > 0 and a.count < len(cases):
        # the special families are always kept; a seeded sample of the product enumeration
        idx = list(range(len(cases)))
        picked = set()
        while len(picked) < min(a.count, len(cases)):
            picked.add(idx[r.below(len(cases))])
        cases = [cases[i] for i in sorted(picked)]
    cases = special + cases
    hist = {}
    with open(a.out, "w") as out:
        for n, (f, fill, pre, A, B, pause, probes) in enumerate(cases):
            out.write("CCASE s-%d-%d f%d %s %s %s\n" % (a.seed, n, f["idx"], f["fl"], f["pol"], f["limit"] if f["limit"] else "-"))
            for p in fill + pre:
                out.write("P %s\n" % p)
            out.write("A %s\nB %s\nPAUSE %d\n" % (A, B, pause))
            for q in probes:
                out.write("Q %s\n" % q)
            out.write("END\n")
            k = "%s|%s" % (A.split()[0], B.split()[0])
            hist[k] = hist.get(k, 0) + 1
    # THREE callers of the same new key, two preemptions of the first: A misses and is parked; B misses,
    # stores and returns; A runs on into its own store and is parked again; C calls — C started after a call
    # that stored the result had returned, so it must be served from the cache
    ntri = 0
    with open(a.out, "a") as out:
        for f in allf:
            if f["fl"] == "t" or f["sig"] != 0 or f["gates"] or f["ret"] != 0:
                continue
            if f["ttl"] or f["mem"] or f["cache_if"] or f["inval_on"] or (f["limit"] is not None and f["limit"] < 3):
                continue
            if ntri >= (90 if a.count > 0 else 600):
                break
            for p1 in range(1, 4):
                for p2 in range(p1 + 1, 7):
                    out.write("CCASE t3-%d-%d f%d %s %s %s\n" % (a.seed, ntri, f["idx"], f["fl"], f["pol"], f["limit"] if f["limit"] else "-"))
                    out.write("P %s\nA %s\nB %s\nC %s\nPAUSE %d\nPAUSE2 %d\nQ %s\nEND\n" % (call(f, 1), call(f, 0), call(f, 0), call(f, 0), p1, p2, call(f, 0)))
                    ntri += 1
    # two OVERLAPPING callers of one new key (both miss before either stores) in a cache with room for every key
    # that is ever stored: afterwards every key must be served — a duplicated queue slot or a needless eviction
    # shows as a re-execution in the probes
    nds = 0
    with open(a.out, "a") as out:
        for f in allf:
            if f["fl"] == "t" or f["sig"] != 0 or f["gates"] or f["ret"] != 0:
                continue
            if f["ttl"] or f["mem"] or f["cache_if"] or f["inval_on"] or f["limit"] is None or f["limit"] < 2:
                continue
            if nds >= (120 if a.count > 0 else 600):
                break
            for pause in range(1, 5):
                for fill in ([call(f, 1)], []):
                    out.write("CCASE ds-%d-%d f%d %s %s %d\n" % (a.seed, nds, f["idx"], f["fl"], f["pol"], f["limit"]))
                    for p_ in fill:
                        out.write("P %s\n" % p_)
                    out.write("A %s\nB %s\nPAUSE %d\n" % (call(f, 0), call(f, 0), pause))
                    if not fill:
                        out.write("Q %s\n" % call(f, 1))
                    out.write("Q %s\nQ %s\nEND\n" % (call(f, 1), call(f, 0)))
                    nds += 1
    # the same EXPIRED key: A sees it expired, is parked before its purge and its own recomputation FAILS (Result: Err,
    # nothing stored); B meanwhile purges, recomputes successfully and stores a fresh value.  Afterwards the fresh value
    # must be stored, tracked by the queue, and served
    nxr = 0
    with open(a.out, "a") as out:
        for f in allf:
            if f["fl"] == "t" or f["sig"] != 0 or f["gates"] or not f["is_result"] or not f["ttl"] or f["cache_if"] or f["inval_on"]:
                continue
            age = (f["ttl"] + 1) * (1 if f["fl"] == "a" else 1000)
            okc = "call %d 1 0 ok %d 8 0 1" % (f["idx"], val(f, 1))
            errc = "call %d 1 0 err %d 8 0 1" % (f["idx"], val(f, 1))
            for pause in range(1, 5):
                out.write("CCASE xr-%d-%d f%d %s %s %s\n" % (a.seed, nxr, f["idx"], f["fl"], f["pol"], f["limit"] if f["limit"] else "-"))
                out.write("P %s\nP age %d 1 %d\nA %s\nB %s\nPAUSE %d\nQ %s\nEND\n" % (okc, f["idx"], age, errc, okc, pause, okc))
                nxr += 1
    # two first calls for DIFFERENT keys that overlap (C03: "never again once any call that stored the result has returned"):
    # a plain cache, or one with room for both; A is parked somewhere inside its call (between the map section and the
    # queue section of its store at some pause points), B stores another key meanwhile; afterwards both keys are served
    ndk = 0
    with open(a.out, "a") as out:
        for f in allf:
            if f["fl"] == "t" or f["sig"] != 0 or f["gates"] or f["ret"] != 0:
                continue
            if f["ttl"] or f["mem"] or f["cache_if"] or f["inval_on"] or (f["limit"] is not None and f["limit"] < 3):
                continue
            if ndk >= (150 if a.count > 0 else 900):
                break
            for pause in range(1, 6):
                out.write("CCASE dk-%d-%d f%d %s %s %s\n" % (a.seed, ndk, f["idx"], f["fl"], f["pol"], f["limit"] if f["limit"] else "-"))
                out.write("A %s\nB %s\nPAUSE %d\nQ %s\nQ %s\nEND\n" % (call(f, 0), call(f, 1), pause, call(f, 0), call(f, 1)))
                ndk += 1
    # sharing with a lifetime (C14): A and B miss the same key; A is parked inside its call, B stores; the stored entry then
    # reaches its ttl (thread C re-stamps it) while A is still computing; A resumes and stores ITS result, which is fresh:
    # the next caller must be served
    nex = 0
    with open(a.out, "a") as out:
        for f in allf:
            if f["fl"] == "t" or f["sig"] != 0 or f["gates"] or f["ret"] not in (0, 1, 2, 3) or not f["ttl"]:
                continue
            if f["mem"] or f["cache_if"] or f["inval_on"] or (f["limit"] is not None and f["limit"] < 2):
                continue
            age = (f["ttl"] + 1) * (1 if f["fl"] == "a" else 1000)
            for pause in range(1, 6):
                out.write("CCASE ex-%d-%d f%d %s %s %s\n" % (a.seed, nex, f["idx"], f["fl"], f["pol"], f["limit"] if f["limit"] else "-"))
                out.write("A %s\nB %s\nC age %d 1 %d\nPAUSE %d\nQ %s\nEND\n" % (call(f, 1), call(f, 1), f["idx"], age, pause, call(f, 1)))
                nex += 1
    # sharing under max_memory (C14): one key is cached; A and B miss another key at the same time and both store it (the
    # second store REPLACES the first); both values and the resident one fit the budget together, three would not: the
    # resident entry, stored by yet another caller, is still served
    ndm = 0
    with open(a.out, "a") as out:
        for f in allf:
            if f["fl"] == "t" or f["sig"] != 0 or f["gates"] or f["ret"] not in (1, 3) or not f["mem"]:
                continue
            if f["ttl"] or f["cache_if"] or f["inval_on"] or (f["limit"] is not None and f["limit"] < 3):
                continue
            ln = f["mem"] // 2 - 33
            if ln < 1:
                continue
            for pause in range(1, 6):
                out.write("CCASE dm-%d-%d f%d %s %s -\n" % (a.seed, ndm, f["idx"], f["fl"], f["pol"]))
                out.write("P %s\nA %s\nB %s\nPAUSE %d\nQ %s\nEND\n" % (call(f, 1, ln), call(f, 2, ln), call(f, 2, ln), pause, call(f, 1, ln)))
                ndm += 1
    # recency under concurrency (C07): an LRU cache at capacity (limit >= 3); A stores a NEW key and is parked somewhere inside
    # its store (at some pause points it holds the queue lock), B meanwhile looks up a resident key (a hit: a USE of that key).
    # Whatever the interleaving, the resident keys that neither thread touched were used longer ago than both, so the next
    # overflow evicts one of THEM and the key B looked up is still served afterwards
    nlr = 0
    with open(a.out, "a") as out:
        for f in allf:
            if f["fl"] == "t" or f["sig"] != 0 or f["gates"] or f["ret"] != 0 or f["pol"] != "lru":
                continue
            if f["ttl"] or f["mem"] or f["cache_if"] or f["inval_on"] or f["limit"] is None or f["limit"] < 3:
                continue
            L = f["limit"]
            for pause in range(1, 7):
                out.write("CCASE lr-%d-%d f%d %s %s %d\n" % (a.seed, nlr, f["idx"], f["fl"], f["pol"], L))
                for x in range(L):
                    out.write("P %s\n" % call(f, x))
                out.write("A %s\nB %s\nPAUSE %d\nQ %s\nQ %s\nEND\n" % (call(f, L), call(f, 1), pause, call(f, L + 1), call(f, 1)))
                nlr += 1
    # overlapping lookups of a stored key (values whose Clone the harness can hold)
    npar = 0
    with open(a.out, "a") as out:
        for f in allf:
            if f["ret"] == 4 and f["fl"] != "t":
                for x in range(3):
                    out.write("PCASE p-%d-%d f%d %s %s -\n" % (a.seed, npar, f["idx"], f["fl"], f["pol"]))
                    out.write("P %s\nA %s\nB %s\nEND\n" % (call(f, x), call(f, x), call(f, x)))
                    npar += 1
    # a store parked INSIDE its critical section (in the user's MemoryEstimator, which the engines call under the queue
    # lock) while another thread invalidates the cache by tag / by name or stores: the invalidation must wait and,
    # once it has returned, nothing stored before may be left
    nest = 0
    with open(a.out, "a") as out:
        for f in allf:
            if f["ret"] == 5 and f["fl"] != "t":
                # two keys whose values fit max_memory together (a Weighted value v occupies 24 + 16 * (v mod 7) bytes)
                wsize = lambda x: 24 + 16 * (val(f, x) % 7)
                pairs = [(x0, x1) for x0 in range(10) for x1 in range(10) if x0 != x1 and wsize(x0) + wsize(x1) <= (f["mem"] or 10 ** 9)]
                if not pairs:
                    continue
                x0, x1 = pairs[0]
                Bs = [call(f, x0), "invw %d %d" % (f["idx"], x0), "invc %d" % f["idx"]] + (["tag %s" % f["tags"][0]] if f["tags"] else [])
                for B in Bs:
                    out.write("PCASE e-%d-%d f%d %s %s -\n" % (a.seed, nest, f["idx"], f["fl"], f["pol"]))
                    out.write("P %s\nA %s\nB %s\nEND\n" % (call(f, x0), call(f, x1), B))
                    nest += 1
    # free-running threads (real parallelism): quiescent consistency and exact statistics
    nstress = 0
    with open(a.out, "a") as out:
        for f in fns:
            if f["ret"] == 0 and nstress < (12 if a.count > 0 else 40):
                out.write("STRESS st-%d-%d f%d 6 250 %d %d\nEND\n" % (a.seed, nstress, f["idx"], r.below(1 << 30), f["limit"] or 3))
                nstress += 1
    # first-call races (real parallelism): plain functions, every thread calls each fresh key three times
    nrace = 0
    with open(a.out, "a") as out:
        for f in allf:
            if f["fl"] == "t" or f["sig"] != 0 or f["gates"] or f["ret"] not in (0, 1):
                continue
            if f["limit"] is not None or f["ttl"] or f["mem"] or f["cache_if"] or f["inval_on"]:
                continue
            if nrace >= (6 if a.count > 0 else 24):
                break
            out.write("STRESS st-%d-r%d f%d 4 %d 0 0 race\nEND\n" % (a.seed, nrace, f["idx"], 400 if a.count > 0 else 3000))
            nrace += 1
    json.dump(dict(schedules=len(cases) + npar + nstress + ntri + nrace + nds + nest + nxr, parked_in_estimator=nest, failed_refresh_races=nxr, double_store_schedules=nds, first_call_races=nrace, enumeration=total + npar + nstress + ntri + nrace + nds + nest + nxr, overlapping_lookups=npar,
                   three_caller_schedules=ntri,
                   stress_runs=nstress, op_pairs=hist), sys.stdout)


if __name__ == "__main__":
    main()
